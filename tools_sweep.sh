#!/bin/bash
# usage: tools_sweep.sh <tier> <seed>...   runs every check for every seed, prints one line per (check, seed)
tier="$1"; shift
cd "$(dirname "$0")"
./check --setup >/dev/null 2>&1
for seed in "$@"; do
  for id in $(python3 -c "import json;print(' '.join(c['property_id'] for c in json.load(open('MANIFEST.json'))['checks']))"); do
    start=$(date +%s)
    out=$(VERIF_SEED=$seed ./check "$id" "$tier" 2>&1); rc=$?
    end=$(date +%s)
    echo "seed=$seed $id rc=$rc $((end-start))s $(echo "$out" | grep -E '^VIOLATION|signature=' | head -3 | tr '\n' ' ' | cut -c1-300)"
  done
done
