#!/bin/bash
# usage: tools_eval_mutant.sh <dir-with-mutant.diff-and-demo.diff> <name> <ID>...
# 1. confirms the mutant in a scratch worktree (pristine+demo passes; mutant: suite passes, demo fails)
# 2. applies the mutant to /repo's working tree, runs the listed quick checks, restores /repo
set -u
src="$1"; name="$2"; shift 2
wt="/tmp/wt/eval-$name"
git -C /repo worktree remove --force "$wt" >/dev/null 2>&1
git -C /repo worktree add --detach "$wt" HEAD >/dev/null 2>&1 || { echo "cannot create worktree"; exit 3; }
cp /repo/Cargo.lock "$wt/" 2>/dev/null
export CARGO_NET_OFFLINE=true
cd "$wt" || exit 3
demo_names=$(grep -E '^\+\s*fn [a-zA-Z0-9_]+\(' "$src/demo.diff" | sed -E 's/^\+\s*fn ([a-zA-Z0-9_]+)\(.*/\1/' | tr '\n' ' ')
echo "demo tests: $demo_names"
git apply "$src/demo.diff" || { echo "CONFIRM: demo.diff does not apply"; }
pr=$(cargo test --offline 2>&1 | grep -E "^test result" | head -1)
echo "pristine+demo: $pr"
git apply "$src/mutant.diff" || { echo "CONFIRM: mutant.diff does not apply"; }
out=$(cargo test --offline 2>&1)
echo "mutant+demo:   $(echo "$out" | grep -E '^test result' | head -1)"
echo "failing tests: $(echo "$out" | grep -E '^test .* FAILED' | tr '\n' ' ')"
git checkout -- . ; git apply "$src/mutant.diff"
feat=$(cargo build --offline --features std,bincode-codec,postcard-codec,verif-hooks 2>&1 | tail -1)
echo "mutant builds with features: $feat"
cd /verif
git -C /repo worktree remove --force "$wt" >/dev/null 2>&1
# run checks against the mutant
git -C /repo apply "$src/mutant.diff" || { echo "cannot apply to /repo"; exit 3; }
for id in "$@"; do
  o=$(/verif/check "$id" quick 2>&1); rc=$?
  echo "CHECK $id rc=$rc $(echo "$o" | grep -E 'signature=' | head -2 | sed -E 's/.*signature=//' | tr '\n' ' ')"
done
git -C /repo checkout -- .
git -C /repo status --short | head -3
