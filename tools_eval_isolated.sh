#!/bin/bash
# usage: tools_eval_isolated.sh <dir-with-mutant.diff|patch.diff-and-demo.diff> <name> <tier> <ID>...
# Like tools_eval_mutant.sh but never touches /repo's working tree: the mutant lives in a scratch
# worktree and the checks run from a scratch copy of /verif whose harness points at that worktree.
# Safe to run while a sweep is using /repo, and several can run in parallel.
#   SKIP_CONFIRM=1  skip step 1 (demo confirmation)
set -u
src="$1"; name="$2"; tier="$3"; shift 3
mut="$src/mutant.diff"; [ -f "$mut" ] || mut="$src/patch.diff"
wt="/tmp/wt/eval-$name"; ev="/tmp/ev/$name"
export CARGO_NET_OFFLINE=true
git -C /repo worktree remove --force "$wt" >/dev/null 2>&1
git -C /repo worktree add --detach "$wt" HEAD >/dev/null 2>&1 || { echo "cannot create worktree"; exit 3; }
cp /repo/Cargo.lock "$wt/" 2>/dev/null
cd "$wt" || exit 3
if [ -z "${SKIP_CONFIRM:-}" ]; then
  feats=""
  grep -q "codec/" "$src/demo.diff" "$mut" 2>/dev/null && feats="--features std,bincode-codec,postcard-codec"
  demo_names=$(grep -E '^\+\s*fn [a-zA-Z0-9_]+\(' "$src/demo.diff" | sed -E 's/^\+\s*fn ([a-zA-Z0-9_]+)\(.*/\1/' | tr '\n' ' ')
  echo "demo tests: $demo_names"
  git apply "$src/demo.diff" || echo "CONFIRM: demo.diff does not apply"
  pr=$(cargo test --offline $feats 2>&1 | grep -E "^test result" | head -1)
  echo "pristine+demo: $pr"
  git apply "$mut" || echo "CONFIRM: mutant does not apply"
  out=$(cargo test --offline $feats 2>&1)
  echo "mutant+demo:   $(echo "$out" | grep -E '^test result' | head -1)"
  echo "failing tests: $(echo "$out" | grep -E '^test .* FAILED' | tr '\n' ' ')"
  git checkout -- . ; git clean -fdq -e Cargo.lock -e target >/dev/null 2>&1
  if [ -n "$feats" ]; then
    echo "mutant, default features: $(git apply "$mut"; cargo test --offline 2>&1 | grep -E '^test result' | head -1)"
    git checkout -- .
  fi
fi
git apply "$mut" || { echo "cannot apply mutant"; exit 3; }
rm -rf "$wt/target"
mkdir -p "$ev"
# the committed state of /verif (never a half-edited working tree); VERIF_EVAL_WORKTREE=1 takes the working tree
if [ -n "${VERIF_EVAL_WORKTREE:-}" ]; then
  rsync -a --exclude target --exclude .git --exclude replays --exclude seeded --exclude '*.log' /verif/ "$ev/"
else
  git -C /verif archive HEAD | tar -x -C "$ev" --exclude=seeded
fi
sed -i "s#path = \"/repo\"#path = \"$wt\"#" "$ev/harness/Cargo.toml"
sed -i '/target-dir/d;/^\[build\]/d' "$ev/harness/.cargo/config.toml"
for id in "$@"; do
  o=$(VERIF_REPO="$wt" "$ev/check" "$id" "$tier" 2>&1); rc=$?
  echo "CHECK $id rc=$rc $(echo "$o" | grep -E 'signature=' | head -2 | sed -E 's/.*signature=//' | tr '\n' ' ')"
  [ $rc -gt 1 ] && echo "$o" | tail -5
done
rm -rf "$ev"
git -C /repo worktree remove --force "$wt" >/dev/null 2>&1
