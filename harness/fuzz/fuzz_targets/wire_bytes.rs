#![no_main]
use libfuzzer_sys::fuzz_target;

// The semantic oracle lives in the harness; a violated oracle becomes a crash libFuzzer can save.
fuzz_target!(|data: &[u8]| {
    if let Err(f) = foca_verif::fuzzing::wire_bytes(data) {
        panic!("ORACLE-FAILURE [{}] {}", f.signature, f.message);
    }
});
