#!/bin/bash
# usage: run.sh <target> <total-runs> <seed> <max-len> <workdir>
# Builds the libFuzzer target (offline, nightly) and runs a campaign from a copy of the committed corpus.
# Prints "FUZZ-EXECS <n>" and, for every saved crashing input, "FUZZ-CRASH <path>". Exit 0 unless the
# infrastructure itself failed (exit 2).
set -u
target="$1"; runs="$2"; seed="$3"; maxlen="$4"; work="$5"
here="$(cd "$(dirname "$0")" && pwd)"
root="$(cd "$here/../.." && pwd)"
export CARGO_NET_OFFLINE=true
cd "$here/.." || exit 2
[ -f fuzz/Cargo.lock ] || cp Cargo.lock fuzz/Cargo.lock 2>/dev/null
if ! cargo +nightly fuzz build "$target" >"$work.build.log" 2>&1; then
  echo "fuzz build failed:" >&2; tail -20 "$work.build.log" >&2; exit 2
fi
rm -f "$work.build.log"
mkdir -p "$work/corpus" "$work/artifacts"
cp -r "$root/corpus/$target/." "$work/corpus/" 2>/dev/null
bin="$(ls "$root"/target/*/release/"$target" 2>/dev/null | head -1)"
[ -x "$bin" ] || { echo "fuzz binary for $target not found" >&2; exit 2; }
jobs=$(nproc); [ "$jobs" -gt 16 ] && jobs=16
per=$(( runs / jobs )); [ "$per" -lt 1 ] && per=1
cd "$work" || exit 2
"$bin" corpus -runs="$per" -seed="$seed" -len_control=0 -max_len="$maxlen" -artifact_prefix="$work/artifacts/" \
  -jobs="$jobs" -workers="$jobs" -print_final_stats=1 -timeout=20 -rss_limit_mb=4096 >"$work/driver.log" 2>&1
execs=0
for f in "$work"/fuzz-*.log; do
  [ -f "$f" ] || continue
  n=$(grep -a "stat::number_of_executed_units" "$f" | tail -1 | awk '{print $2}')
  execs=$(( execs + ${n:-0} ))
done
echo "FUZZ-EXECS $execs"
for a in "$work"/artifacts/*; do
  [ -f "$a" ] && echo "FUZZ-CRASH $a"
done
exit 0
