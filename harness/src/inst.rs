//! One Foca instance under test plus the call wrapper that records everything observable.
use crate::codec::{AnyCodec, CodecKind};
use crate::handler::{Handler, HandlerSpec, RecvCall};
use crate::ident::Id;
use crate::rt::{Ev, Rec};
use foca::verif::{Event as HookEv, Snapshot};
use foca::{Config, Error, Foca, Member, PeriodicParams, Timer};
use rand::{rngs::SmallRng, SeedableRng};
use serde::{Deserialize, Serialize};
use std::num::{NonZeroU8, NonZeroUsize};
use std::panic::{catch_unwind, AssertUnwindSafe};
use std::time::Duration;

pub type F = Foca<Id, AnyCodec, SmallRng, Handler>;

#[derive(Clone, Debug, PartialEq, Eq, Serialize, Deserialize)]
pub struct Periodic {
    pub every_ms: u32,
    pub num: u8,
}

#[derive(Clone, Debug, PartialEq, Eq, Serialize, Deserialize)]
pub struct CfgSpec {
    pub probe_period_ms: u32,
    pub probe_rtt_ms: u32,
    pub num_indirect: u8,
    pub max_tx: u8,
    pub suspect_to_down_ms: u32,
    pub remove_down_ms: u32,
    pub max_packet: u32,
    pub notify_down: bool,
    pub periodic_announce: Option<Periodic>,
    pub periodic_announce_down: Option<Periodic>,
    pub periodic_gossip: Option<Periodic>,
}

impl Default for CfgSpec {
    fn default() -> Self {
        CfgSpec {
            probe_period_ms: 1000,
            probe_rtt_ms: 300,
            num_indirect: 3,
            max_tx: 3,
            suspect_to_down_ms: 3000,
            remove_down_ms: 3_600_000,
            max_packet: 1400,
            notify_down: false,
            periodic_announce: None,
            periodic_announce_down: None,
            periodic_gossip: None,
        }
    }
}

fn nz(n: usize) -> NonZeroUsize {
    NonZeroUsize::new(n.max(1)).unwrap()
}

impl CfgSpec {
    pub fn to_config(&self) -> Config {
        let pp = |p: &Option<Periodic>| {
            p.as_ref().map(|p| PeriodicParams {
                frequency: Duration::from_millis(p.every_ms as u64),
                num_members: nz(p.num as usize),
            })
        };
        Config {
            probe_period: Duration::from_millis(self.probe_period_ms as u64),
            probe_rtt: Duration::from_millis(self.probe_rtt_ms as u64),
            num_indirect_probes: nz(self.num_indirect as usize),
            max_transmissions: NonZeroU8::new(self.max_tx.max(1)).unwrap(),
            suspect_to_down_after: Duration::from_millis(self.suspect_to_down_ms as u64),
            remove_down_after: Duration::from_millis(self.remove_down_ms as u64),
            max_packet_size: nz(self.max_packet as usize),
            notify_down_members: self.notify_down,
            periodic_announce: pp(&self.periodic_announce),
            periodic_announce_to_down_members: pp(&self.periodic_announce_down),
            periodic_gossip: pp(&self.periodic_gossip),
        }
    }
}

#[derive(Clone, Copy, Debug, PartialEq, Eq, Hash, PartialOrd, Ord, Serialize, Deserialize)]
pub enum ErrKind {
    DataTooBig,
    NotUndead,
    SameIdentity,
    NotConnected,
    IncompleteProbeCycle,
    DataFromOurselves,
    IndirectForOurselves,
    MalformedPacket,
    Encode,
    Decode,
    CustomBroadcast,
    InvalidConfig,
}

pub fn err_kind(e: &Error) -> ErrKind {
    match e {
        Error::DataTooBig => ErrKind::DataTooBig,
        Error::NotUndead => ErrKind::NotUndead,
        Error::SameIdentity => ErrKind::SameIdentity,
        Error::NotConnected => ErrKind::NotConnected,
        Error::IncompleteProbeCycle => ErrKind::IncompleteProbeCycle,
        Error::DataFromOurselves => ErrKind::DataFromOurselves,
        Error::IndirectForOurselves => ErrKind::IndirectForOurselves,
        Error::MalformedPacket => ErrKind::MalformedPacket,
        Error::Encode(_) => ErrKind::Encode,
        Error::Decode(_) => ErrKind::Decode,
        Error::CustomBroadcast(_) => ErrKind::CustomBroadcast,
        Error::InvalidConfig => ErrKind::InvalidConfig,
    }
}

#[derive(Clone, Debug, PartialEq, Eq)]
pub enum Call {
    Data(Vec<u8>),
    Timer(Timer<Id>),
    ApplyMany(Vec<Member<Id>>, bool),
    Announce(Id),
    Gossip,
    Broadcast,
    AddBroadcast(Vec<u8>),
    Leave,
    ChangeIdentity(Id),
    ReuseDown,
    SetConfig(CfgSpec),
}

impl Call {
    pub fn kind(&self) -> &'static str {
        match self {
            Call::Data(_) => "handle_data",
            Call::Timer(_) => "handle_timer",
            Call::ApplyMany(..) => "apply_many",
            Call::Announce(_) => "announce",
            Call::Gossip => "gossip",
            Call::Broadcast => "broadcast",
            Call::AddBroadcast(_) => "add_broadcast",
            Call::Leave => "leave_cluster",
            Call::ChangeIdentity(_) => "change_identity",
            Call::ReuseDown => "reuse_down_identity",
            Call::SetConfig(_) => "set_config",
        }
    }
    pub fn render(&self, codec: CodecKind) -> String {
        match self {
            Call::Data(b) => format!("handle_data({})", crate::wire::render(b, codec)),
            Call::Timer(t) => format!("handle_timer({:?})", t),
            Call::ApplyMany(ms, b) => format!(
                "apply_many([{}], broadcast={})",
                ms.iter().map(|m| format!("{}:{}:{:?}", m.id(), m.incarnation(), m.state())).collect::<Vec<_>>().join(" "),
                b
            ),
            Call::Announce(d) => format!("announce({})", d),
            Call::Gossip => "gossip()".into(),
            Call::Broadcast => "broadcast()".into(),
            Call::AddBroadcast(b) => format!("add_broadcast({} bytes: {})", b.len(), crate::wire::hex(b)),
            Call::Leave => "leave_cluster()".into(),
            Call::ChangeIdentity(i) => format!("change_identity({} renew={})", i, i.renew),
            Call::ReuseDown => "reuse_down_identity()".into(),
            Call::SetConfig(c) => format!("set_config({:?})", c),
        }
    }
}

#[derive(Clone, Debug, PartialEq, Eq)]
pub enum Res {
    Ok,
    OkBool(bool),
    Err(ErrKind, String),
    Panic(String),
}
impl Res {
    pub fn is_ok(&self) -> bool {
        matches!(self, Res::Ok | Res::OkBool(_))
    }
    pub fn err(&self) -> Option<ErrKind> {
        match self {
            Res::Err(k, _) => Some(*k),
            _ => None,
        }
    }
    pub fn is_panic(&self) -> bool {
        matches!(self, Res::Panic(_))
    }
}

#[derive(Clone, Debug, PartialEq, Eq)]
pub struct View {
    pub identity: Id,
    /// full membership state, in storage order
    pub state: Vec<Member<Id>>,
    /// iter_members() identities, sorted
    pub active: Vec<Id>,
    pub num_members: usize,
    pub updates_backlog: usize,
    pub custom_backlog: usize,
    pub snap: Snapshot<Id>,
}

impl View {
    pub fn record(&self, addr: u16) -> Option<&Member<Id>> {
        self.state.iter().find(|m| m.id().addr == addr)
    }
    pub fn record_of(&self, id: &Id) -> Option<&Member<Id>> {
        self.state.iter().find(|m| m.id() == id)
    }
    pub fn is_active(&self, id: &Id) -> bool {
        self.active.binary_search(id).is_ok()
    }
    /// 0 = disconnected/idle, 1 = connected/active, 2 = undead/defunct (from the hook)
    pub fn conn(&self) -> u8 {
        self.snap.connection_state
    }
}

#[derive(Clone, Debug)]
pub struct CallRec {
    pub call: Call,
    pub res: Res,
    pub evs: Vec<Ev>,
    pub hook: Vec<HookEv>,
    pub handler_calls: Vec<RecvCall>,
    pub before: View,
    pub after: View,
}

impl CallRec {
    pub fn render(&self, codec: CodecKind) -> String {
        let mut s = format!("{} => {:?}", self.call.render(codec), self.res);
        for e in &self.evs {
            s.push_str("\n      ");
            s.push_str(&crate::rt::render_ev(e, codec));
        }
        s
    }
}

pub struct Inst {
    pub foca: F,
    pub codec: CodecKind,
    pub cfg: CfgSpec,
    pub handler_spec: HandlerSpec,
    pub poisoned: bool,
}

thread_local! {
    static LAST_PANIC: std::cell::RefCell<String> = std::cell::RefCell::new(String::new());
}

/// Installs a panic hook that stores the message (thread-local) instead of printing it.
pub fn install_quiet_panic_hook() {
    std::panic::set_hook(Box::new(|info| {
        let msg = format!("{}", info);
        LAST_PANIC.with(|p| *p.borrow_mut() = msg);
    }));
}

pub fn take_last_panic() -> String {
    LAST_PANIC.with(|p| std::mem::take(&mut *p.borrow_mut()))
}

impl Inst {
    pub fn new(id: Id, cfg: CfgSpec, codec: CodecKind, rng_seed: u64, handler: HandlerSpec) -> Self {
        let foca = Foca::with_custom_broadcast(
            id,
            cfg.to_config(),
            SmallRng::seed_from_u64(rng_seed),
            AnyCodec(codec),
            Handler::new(handler),
        );
        Inst { foca, codec, cfg, handler_spec: handler, poisoned: false }
    }

    pub fn view(&self) -> View {
        let mut active: Vec<Id> = self.foca.iter_members().map(|m| *m.id()).collect();
        active.sort();
        View {
            identity: *self.foca.identity(),
            state: self.foca.iter_membership_state().cloned().collect(),
            active,
            num_members: self.foca.num_members(),
            updates_backlog: self.foca.updates_backlog(),
            custom_backlog: self.foca.custom_broadcast_backlog(),
            snap: self.foca.verif_snapshot(),
        }
    }

    /// Executes the call against the real Foca. Returns (result, effects, hook events, handler calls).
    pub fn raw_call(&mut self, call: &Call) -> (Res, Vec<Ev>, Vec<HookEv>, Vec<RecvCall>) {
        let mut rt = Rec::new();
        let foca = &mut self.foca;
        let r = catch_unwind(AssertUnwindSafe(|| -> Result<Option<bool>, Error> {
            match call {
                Call::Data(b) => foca.handle_data(b, &mut rt).map(|_| None),
                Call::Timer(t) => foca.handle_timer(t.clone(), &mut rt).map(|_| None),
                Call::ApplyMany(ms, b) => foca.apply_many(ms.iter().cloned(), *b, &mut rt).map(|_| None),
                Call::Announce(d) => foca.announce(*d, &mut rt).map(|_| None),
                Call::Gossip => foca.gossip(&mut rt).map(|_| None),
                Call::Broadcast => foca.broadcast(&mut rt).map(|_| None),
                Call::AddBroadcast(b) => foca.add_broadcast(b).map(Some),
                Call::Leave => foca.leave_cluster(&mut rt).map(|_| None),
                Call::ChangeIdentity(i) => foca.change_identity(*i, &mut rt).map(|_| None),
                Call::ReuseDown => foca.reuse_down_identity().map(|_| None),
                Call::SetConfig(c) => foca.set_config(c.to_config()).map(|_| None),
            }
        }));
        let res = match r {
            Ok(Ok(None)) => Res::Ok,
            Ok(Ok(Some(b))) => Res::OkBool(b),
            Ok(Err(e)) => Res::Err(err_kind(&e), e.to_string()),
            Err(p) => {
                self.poisoned = true;
                let hooked = take_last_panic();
                let msg = if !hooked.is_empty() {
                    hooked
                } else if let Some(s) = p.downcast_ref::<&str>() {
                    s.to_string()
                } else if let Some(s) = p.downcast_ref::<String>() {
                    s.clone()
                } else {
                    "panic".to_string()
                };
                Res::Panic(msg)
            }
        };
        if let (Call::SetConfig(c), true) = (call, res.is_ok()) {
            self.cfg = c.clone();
        }
        let hook = if self.poisoned { Vec::new() } else { self.foca.verif_drain_events() };
        let hcalls = if self.poisoned {
            Vec::new()
        } else {
            std::mem::take(&mut self.foca.verif_broadcast_handler_mut().log)
        };
        (res, rt.take(), hook, hcalls)
    }

    /// Full record with before/after views.
    pub fn call(&mut self, call: Call) -> CallRec {
        let before = self.view();
        let (res, evs, hook, handler_calls) = self.raw_call(&call);
        let after = if self.poisoned { before.clone() } else { self.view() };
        CallRec { call, res, evs, hook, handler_calls, before, after }
    }
}
