//! Entry points shared by the libFuzzer targets (harness/fuzz) and by the replay path:
//! bytes -> structured case -> the same oracles the proptest parts use.
use crate::codec::CodecKind;
use crate::engine::{CaseOut, Fail};
use crate::handler::HandlerSpec;
use crate::ident::*;
use crate::inst::*;
use crate::model;
use crate::props::{c06, c20};
use foca::{Member, State};
use crate::ops::*;

/// Minimal cursor over fuzzer bytes (runs out => zeros), so that a small mutation of the input is a
/// small change of the decoded case.
struct Cur<'a> {
    d: &'a [u8],
    p: usize,
}
impl<'a> Cur<'a> {
    fn u8(&mut self) -> u8 {
        let v = self.d.get(self.p).copied().unwrap_or(0);
        self.p += 1;
        v
    }
    fn u16(&mut self) -> u16 {
        u16::from_le_bytes([self.u8(), self.u8()])
    }
    fn done(&self) -> bool {
        self.p >= self.d.len()
    }
    fn id(&mut self) -> IdSel {
        let b = self.u8();
        match b % 10 {
            0..=3 => IdSel::Abs(1 + (b >> 4) % 4, self.u8() % 4),
            4 => IdSel::Rec(self.u16()),
            5 => IdSel::ProbeTarget,
            6 => IdSel::Helper(b >> 4),
            7 => IdSel::Own,
            8 => IdSel::OwnAddr(self.u8() % 5),
            _ => IdSel::ProbeTargetGen((b >> 4) as i8 % 3 - 1),
        }
    }
    fn inc(&mut self) -> IncSel {
        let b = self.u8();
        match b % 4 {
            0 => IncSel::Abs((b >> 2) as u16 % 4),
            1 => IncSel::Rel((b >> 2) as i8 % 5 - 2),
            2 => IncSel::FromMax((b >> 2) % 3),
            _ => IncSel::Abs(self.u16()),
        }
    }
    fn no(&mut self) -> NoSel {
        let b = self.u8();
        match b % 6 {
            0..=2 => NoSel::Cur,
            3 => NoSel::Prev,
            4 => NoSel::Next,
            _ => NoSel::Abs(b >> 3),
        }
    }
    fn member(&mut self) -> MemberSpec {
        MemberSpec { id: self.id(), inc: self.inc(), state: self.u8() % 3 }
    }
    fn item(&mut self) -> ItemSpec {
        let b = self.u8();
        ItemSpec { key: if b == 255 { 255 } else { b % 5 }, version: self.u8() % 4, pad: (self.u8() % 48) as u16 }
    }
    fn data(&mut self) -> DataSpec {
        let src = self.id();
        let inc = self.inc();
        let d = self.u8();
        let dst = match d % 8 {
            0..=5 => DstSel::Me,
            6 => DstSel::MeGen(d >> 4),
            _ => DstSel::Abs((d >> 3) % 5, d >> 6),
        };
        let k = self.u8();
        let msg = match k % 11 {
            0 => MsgSel::Ping(self.no()),
            1 => MsgSel::Ack(self.no()),
            2 => MsgSel::PingReq(self.id(), self.no()),
            3 => MsgSel::IndirectPing(self.id(), self.no()),
            4 => MsgSel::IndirectAck(self.id(), self.no()),
            5 => MsgSel::ForwardedAck(self.id(), self.no()),
            6 => MsgSel::Announce,
            7 => MsgSel::Feed,
            8 => MsgSel::Gossip,
            9 => MsgSel::Broadcast,
            _ => MsgSel::TurnUndead,
        };
        let piggy = !matches!(msg, MsgSel::Announce | MsgSel::TurnUndead | MsgSel::Broadcast);
        let nm = (k >> 4) % 5;
        let members = if piggy && nm > 0 { Some((0..nm - 1).map(|_| self.member()).collect()) } else { None };
        let ni = self.u8() % 3;
        let items = if members.is_some() || matches!(msg, MsgSel::Broadcast) { (0..ni).map(|_| self.item()).collect() } else { Vec::new() };
        let m = self.u8();
        let mangle = match m % 12 {
            0..=6 => Mangle::None,
            7 => Mangle::Truncate(self.u16()),
            8 => Mangle::TrailingByte(m),
            9 => Mangle::Flip(self.u16(), m),
            10 => Mangle::Append(m >> 4, m),
            _ => Mangle::Count(self.u16()),
        };
        DataSpec { src, inc, dst, msg, members, items, mangle }
    }
    fn op(&mut self) -> Op {
        let b = self.u8();
        match b % 20 {
            0..=6 => Op::Data(self.data()),
            7 => Op::Fire(self.u16()),
            8 | 9 => Op::FireNext,
            10 => Op::FireOld(self.u16()),
            11 => {
                let k = self.u8();
                let d = (k >> 4) as i8 % 3 - 1;
                Op::FireCrafted(match k % 7 {
                    0 => TimerSpec::ProbeRandomMember(d),
                    1 => TimerSpec::SendIndirectProbe(self.id(), d),
                    2 => TimerSpec::ChangeSuspectToDown(self.id(), self.inc(), d),
                    3 => TimerSpec::PeriodicAnnounce(d),
                    4 => TimerSpec::PeriodicAnnounceDown(d),
                    5 => TimerSpec::PeriodicGossip(d),
                    _ => TimerSpec::RemoveDown(self.id()),
                })
            }
            12 => {
                let n = 1 + (b >> 5) % 3;
                Op::ApplyMany((0..n).map(|_| self.member()).collect(), b & 16 != 0)
            }
            13 => match (b >> 5) % 3 {
                0 => Op::Announce(self.id()),
                1 => Op::Gossip,
                _ => Op::Broadcast,
            },
            14 => Op::AddBroadcast(self.item()),
            15 => {
                let n = self.u8() % 40;
                Op::Raw((0..n).map(|_| self.u8()).collect())
            }
            16 => match (b >> 5) % 3 {
                0 => Op::Leave,
                1 => Op::ReuseDown,
                _ => Op::ChangeIdentity(self.id(), self.u8() % RENEW_MODES),
            },
            17 => {
                let k = self.u8();
                Op::SetConfig(match k % 12 {
                    0 => CfgDelta::MaxTx(self.u8()),
                    1 => CfgDelta::NumIndirect(1 + self.u8() % 4),
                    2 => CfgDelta::MaxPacket(self.u16() as u32 + if k & 16 != 0 { 60_000 } else { 0 }),
                    3 => CfgDelta::NotifyDown(k & 16 != 0),
                    4 => CfgDelta::DisableAnnounce,
                    5 => CfgDelta::DisableAnnounceDown,
                    6 => CfgDelta::DisableGossip,
                    7 => CfgDelta::RetimeGossip(1 + self.u16() as u32, 1 + k >> 6),
                    8 => CfgDelta::ProbePeriod(1 + self.u8() as u32),
                    9 => CfgDelta::EnableGossip,
                    10 => CfgDelta::EnableAnnounceDown,
                    _ => CfgDelta::SuspectToDown(1 + self.u16() as u32),
                })
            }
            18 => {
                let n = self.u8() as usize % 64;
                Op::AddBroadcastRaw((0..n).map(|_| self.u8()).collect())
            }
            _ => Op::Fire(self.u16()),
        }
    }
    fn setup(&mut self) -> Setup {
        let a = self.u8();
        let b = self.u8();
        let c = self.u8();
        let per = |on: bool, ms: u32| if on { Some(Periodic { every_ms: ms, num: 2 }) } else { None };
        Setup {
            own_gen: a % 3,
            own_renew: (a >> 2) % RENEW_MODES,
            cfg: CfgSpec {
                probe_period_ms: 1000,
                probe_rtt_ms: 300,
                num_indirect: 1 + (a >> 5) % 3,
                max_tx: [1, 2, 3, 10, 255][(b % 5) as usize],
                suspect_to_down_ms: 3000,
                remove_down_ms: 20_000,
                max_packet: [1400, 20, 33, 64, 200, 65_535, 70_000, 12][((b >> 3) % 8) as usize],
                notify_down: b & 128 != 0,
                periodic_announce: per(c & 1 != 0, 5000),
                periodic_announce_down: per(c & 2 != 0, 7000),
                periodic_gossip: per(c & 4 != 0, 400),
            },
            codec: [CodecKind::Fix, CodecKind::Var, CodecKind::Postcard, CodecKind::Bincode][((c >> 3) % 4) as usize],
            rng_seed: (c >> 5) as u64,
            handler: if c & 128 != 0 { HandlerSpec::SIMPLE } else { HandlerSpec::OFF },
        }
    }
}

/// Decodes fuzzer bytes into a two-instance operation sequence (C06's case type).
pub fn decode_api_case(data: &[u8]) -> c06::MultiCase {
    let mut c = Cur { d: data, p: 0 };
    let a = c.setup();
    let b = c.setup();
    let mut ops = Vec::new();
    while !c.done() && ops.len() < 300 {
        let sel = c.u8();
        ops.push(match sel % 8 {
            0..=3 => c06::MultiOp::A(c.op()),
            4 => c06::MultiOp::B(c.op()),
            5 | 6 => c06::MultiOp::Deliver(c.u16()),
            _ => {
                if sel & 8 != 0 {
                    c06::MultiOp::DeliverDup(c.u16())
                } else {
                    c06::MultiOp::BigBroadcast(65_530 + (c.u8() % 16) as u32)
                }
            }
        });
    }
    c06::MultiCase { a, b, ops }
}

/// C06: bytes are decoded into a structured operation sequence on two wired instances.
pub fn api_ops(data: &[u8]) -> Result<(), Fail> {
    if data.len() < 8 {
        return Ok(());
    }
    let case = decode_api_case(data);
    c06::exec_multi(&case, &mut CaseOut::default())
}

fn prepared(state: u8, codec: CodecKind, max_packet: u32) -> Inst {
    let renew = if state & 1 == 1 { RENEW_NEXT } else { RENEW_NONE };
    let mut i = Inst::new(
        Id::with_renew(0, 1, renew),
        CfgSpec { max_packet, notify_down: state & 2 != 0, max_tx: 3, ..CfgSpec::default() },
        codec,
        9,
        if state & 4 != 0 { HandlerSpec::SIMPLE } else { HandlerSpec::OFF },
    );
    let st = (state >> 3) % 4;
    if st >= 1 {
        i.raw_call(&Call::ApplyMany(
            vec![Member::new(Id::new(1, 0), 0, State::Alive), Member::new(Id::new(2, 1), 3, State::Suspect), Member::new(Id::new(3, 0), 0, State::Down), Member::new(Id::new(0, 0), 0, State::Down)],
            true,
        ));
    }
    if st >= 2 {
        // open a probe round
        i.raw_call(&Call::Timer(foca::Timer::ProbeRandomMember(0)));
    }
    if st == 3 {
        i.raw_call(&Call::Leave);
    }
    i
}

/// C06 + C17: raw bytes into handle_data of an instance in one of several prepared states.
/// No panic; and if the harness's structural classifier says the datagram is rejected before
/// processing, the call must leave no trace.
pub fn wire_bytes(data: &[u8]) -> Result<(), Fail> {
    if data.len() < 2 {
        return Ok(());
    }
    let state = data[0];
    let codec = [CodecKind::Fix, CodecKind::Var, CodecKind::Postcard, CodecKind::Bincode][(data[1] & 3) as usize];
    let max_packet = if data[1] & 4 != 0 { 48 } else { 1400 };
    let bytes = &data[2..];
    let mut inst = prepared(state, codec, max_packet);
    let rec = inst.call(Call::Data(bytes.to_vec()));
    if let Res::Panic(m) = &rec.res {
        return Err(Fail::new(format!("C06:panic:{}", c06::panic_signature(m)), format!("handle_data panicked on {} bytes: {m}", bytes.len())));
    }
    let c = model::classify(&rec.before, max_packet as usize, codec, bytes);
    if let Some(r) = &c.reject {
        if !rec.evs.is_empty() || !rec.handler_calls.is_empty() || rec.before != rec.after || !rec.hook.is_empty() {
            return Err(Fail::new(
                format!("C17:trace:{:?}", r),
                format!("datagram rejected before processing ({:?}) left a trace: result {:?}, effects {:?}", r, rec.res, rec.evs),
            ));
        }
    }
    // every datagram sent in reaction must itself be well-formed
    for e in &rec.evs {
        if let crate::rt::Ev::Send { bytes, .. } = e {
            if let Err(e) = crate::wire::parse(bytes, codec) {
                return Err(Fail::new("C07:unparseable-send", format!("reply to fuzzed datagram is malformed: {e}")));
            }
        }
    }
    Ok(())
}

/// C20: arbitrary bytes into the bundled decoders (never the unlimited-bincode x heap-identity combination).
pub fn codec_bytes(data: &[u8]) -> Result<(), Fail> {
    if data.is_empty() {
        return Ok(());
    }
    c20::fuzz_decode(data[0], &data[1..])
}

pub fn replay(target: &str, bytes: &[u8]) -> Option<Result<(), Fail>> {
    match target {
        "api_ops" => Some(api_ops(bytes)),
        "wire_bytes" => Some(wire_bytes(bytes)),
        "codec_bytes" => Some(codec_bytes(bytes)),
        _ => None,
    }
}

/// Small valid seed inputs for the three targets (committed under /verif/corpus).
pub fn gen_corpus() -> Vec<(&'static str, String, Vec<u8>)> {
    use foca::{Codec, Header, Message};
    use rand::{RngCore, SeedableRng};
    let mut out = Vec::new();
    // wire_bytes: valid datagrams of every kind addressed to the prepared instance (identity 0.1)
    let me = Id::new(0, 1);
    let kinds: Vec<Message<Id>> = vec![
        Message::Ping(1),
        Message::Ack(1),
        Message::PingReq { target: Id::new(2, 1), probe_number: 1 },
        Message::IndirectPing { origin: Id::new(2, 1), probe_number: 1 },
        Message::IndirectAck { target: Id::new(2, 1), probe_number: 1 },
        Message::ForwardedAck { origin: Id::new(2, 1), probe_number: 1 },
        Message::Announce,
        Message::Feed,
        Message::Gossip,
        Message::Broadcast,
        Message::TurnUndead,
    ];
    for (ci, codec) in [CodecKind::Fix, CodecKind::Var, CodecKind::Postcard, CodecKind::Bincode].iter().enumerate() {
        for (ki, m) in kinds.iter().enumerate() {
            let h = Header { src: Id::new(1, 0), src_incarnation: 0, dst: me, message: m.clone() };
            let members = if crate::wire::piggybacks(m) { Some(vec![Member::new(Id::new(2, 1), 4, State::Alive), Member::new(me, 0, State::Suspect)]) } else { None };
            let items: Vec<Vec<u8>> = if crate::wire::may_carry_items(m) && members.is_some() { vec![vec![1, 2, 3]] } else { vec![] };
            let mut bytes = vec![(8 + ki as u8 * 8) | 4, ci as u8];
            bytes.extend(crate::wire::build(*codec, &h, members.as_deref(), &items));
            out.push(("wire_bytes", format!("{:?}-{}", codec, crate::wire::kind_name(m)).to_lowercase(), bytes));
        }
    }
    // api_ops: pseudo-random programs
    let mut r = rand::rngs::SmallRng::seed_from_u64(0xC0FFEE);
    for i in 0..24 {
        let mut b = vec![0u8; 48 + i * 16];
        r.fill_bytes(&mut b);
        out.push(("api_ops", format!("prog-{i:02}"), b));
    }
    // codec_bytes: valid encodings behind each selector
    for sel in 0..20u8 {
        let mut v = vec![sel];
        let h = Header { src: 7u64, src_incarnation: 3, dst: 9u64, message: Message::PingReq { target: 11u64, probe_number: 5 } };
        let mut enc = Vec::new();
        let _ = foca::PostcardCodec.encode_header(&h, &mut enc);
        v.extend(enc);
        out.push(("codec_bytes", format!("sel-{sel:02}"), v));
    }
    out
}
