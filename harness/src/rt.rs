//! Recording runtime: one ordered log of everything Foca asks of its environment.
use crate::ident::Id;
use foca::{Notification, OwnedNotification, Runtime, Timer};
use std::time::Duration;

#[derive(Clone, Debug, PartialEq, Eq)]
pub enum Ev {
    Send { to: Id, bytes: Vec<u8> },
    Timer { timer: Timer<Id>, after: Duration },
    Note(OwnedNotification<Id>),
}

#[derive(Default, Debug)]
pub struct Rec {
    pub log: Vec<Ev>,
}

impl Rec {
    pub fn new() -> Self {
        Rec { log: Vec::new() }
    }
    pub fn take(&mut self) -> Vec<Ev> {
        std::mem::take(&mut self.log)
    }
}

impl Runtime<Id> for Rec {
    fn notify(&mut self, n: Notification<'_, Id>) {
        self.log.push(Ev::Note(n.to_owned()));
    }
    fn send_to(&mut self, to: Id, data: &[u8]) {
        self.log.push(Ev::Send { to, bytes: data.to_vec() });
    }
    fn submit_after(&mut self, event: Timer<Id>, after: Duration) {
        self.log.push(Ev::Timer { timer: event, after });
    }
}

pub fn sends(evs: &[Ev]) -> impl Iterator<Item = (&Id, &Vec<u8>)> {
    evs.iter().filter_map(|e| match e {
        Ev::Send { to, bytes } => Some((to, bytes)),
        _ => None,
    })
}
pub fn timers(evs: &[Ev]) -> impl Iterator<Item = (&Timer<Id>, &Duration)> {
    evs.iter().filter_map(|e| match e {
        Ev::Timer { timer, after } => Some((timer, after)),
        _ => None,
    })
}
pub fn notes(evs: &[Ev]) -> impl Iterator<Item = &OwnedNotification<Id>> {
    evs.iter().filter_map(|e| match e {
        Ev::Note(n) => Some(n),
        _ => None,
    })
}

pub fn timer_kind(t: &Timer<Id>) -> &'static str {
    match t {
        Timer::ProbeRandomMember(_) => "ProbeRandomMember",
        Timer::SendIndirectProbe { .. } => "SendIndirectProbe",
        Timer::ChangeSuspectToDown { .. } => "ChangeSuspectToDown",
        Timer::PeriodicAnnounce(_) => "PeriodicAnnounce",
        Timer::PeriodicAnnounceDown(_) => "PeriodicAnnounceDown",
        Timer::PeriodicGossip(_) => "PeriodicGossip",
        Timer::RemoveDown(_) => "RemoveDown",
    }
}

pub fn timer_token(t: &Timer<Id>) -> Option<u8> {
    match t {
        Timer::ProbeRandomMember(k)
        | Timer::PeriodicAnnounce(k)
        | Timer::PeriodicAnnounceDown(k)
        | Timer::PeriodicGossip(k) => Some(*k),
        Timer::SendIndirectProbe { token, .. } | Timer::ChangeSuspectToDown { token, .. } => Some(*token),
        Timer::RemoveDown(_) => None,
    }
}

pub fn render_ev(e: &Ev, codec: crate::codec::CodecKind) -> String {
    match e {
        Ev::Send { to, bytes } => format!("send->{} {}", to, crate::wire::render(bytes, codec)),
        Ev::Timer { timer, after } => format!("timer {:?} after {:?}", timer, after),
        Ev::Note(n) => format!("notify {:?}", n),
    }
}
