//! Single-instance operation alphabet: symbolic ops (serialisable = replay format),
//! their interpreter against a real Foca instance, and proptest strategies.
use crate::codec::CodecKind;
use crate::handler::{Accept, HandlerSpec, Inval};
use crate::ident::*;
use crate::inst::*;
use crate::rt::{timer_token, Ev};
use crate::wire;
use foca::{Header, Member, Message, State, Timer};
use proptest::prelude::*;
use serde::{Deserialize, Serialize};

pub const OWN_ADDR: u16 = 0;

#[derive(Clone, Copy, Debug, PartialEq, Eq, Serialize, Deserialize)]
pub enum IdSel {
    Abs(u8, u8),
    /// k-th record of the membership state (monotone index map); falls back to Abs(1,0)
    Rec(u16),
    /// destination of the last Ping this instance sent
    ProbeTarget,
    /// destination of the k-th PingReq sent since that Ping
    Helper(u8),
    /// the instance's current identity
    Own,
    /// the instance's current address with another generation
    OwnAddr(u8),
    /// same address as the last Ping's destination, generation + delta
    ProbeTargetGen(i8),
}

#[derive(Clone, Copy, Debug, PartialEq, Eq, Serialize, Deserialize)]
pub enum IncSel {
    Abs(u16),
    /// relative to what the instance currently records for that identity (own incarnation for Own)
    Rel(i8),
    /// u16::MAX - k
    FromMax(u8),
}

#[derive(Clone, Copy, Debug, PartialEq, Eq, Serialize, Deserialize)]
pub enum NoSel {
    Cur,
    Prev,
    Next,
    Abs(u8),
}

#[derive(Clone, Copy, Debug, PartialEq, Eq, Serialize, Deserialize)]
pub enum MsgSel {
    Ping(NoSel),
    Ack(NoSel),
    PingReq(IdSel, NoSel),
    IndirectPing(IdSel, NoSel),
    IndirectAck(IdSel, NoSel),
    ForwardedAck(IdSel, NoSel),
    Announce,
    Feed,
    Gossip,
    Broadcast,
    TurnUndead,
}

#[derive(Clone, Copy, Debug, PartialEq, Eq, Serialize, Deserialize)]
pub struct MemberSpec {
    pub id: IdSel,
    pub inc: IncSel,
    /// 0 alive 1 suspect 2 down
    pub state: u8,
}

#[derive(Clone, Debug, PartialEq, Eq, Serialize, Deserialize)]
pub struct ItemSpec {
    pub key: u8,
    pub version: u8,
    pub pad: u16,
}
impl ItemSpec {
    pub fn bytes(&self) -> Vec<u8> {
        let mut v = vec![self.key, self.version];
        for i in 0..self.pad {
            v.push((i as u8) ^ self.key.wrapping_mul(31));
        }
        v
    }
}

#[derive(Clone, Copy, Debug, PartialEq, Eq, Serialize, Deserialize)]
pub enum Mangle {
    None,
    /// keep only the first n*len/65536 bytes
    Truncate(u16),
    /// append exactly one byte
    TrailingByte(u8),
    /// xor one byte
    Flip(u16, u8),
    /// append junk
    Append(u8, u8),
    /// overwrite the member count (if there is one) with this value
    Count(u16),
    /// pad with junk until the datagram exceeds max_packet_size by 1 + k bytes
    Oversize(u8),
    /// append a zero-length custom item (`00 00`) followed by k%4 junk bytes
    EmptyItem(u8),
}

#[derive(Clone, Copy, Debug, PartialEq, Eq, Serialize, Deserialize)]
pub enum DstSel {
    Me,
    MeGen(u8),
    Abs(u8, u8),
}

#[derive(Clone, Debug, PartialEq, Eq, Serialize, Deserialize)]
pub struct DataSpec {
    pub src: IdSel,
    pub inc: IncSel,
    pub dst: DstSel,
    pub msg: MsgSel,
    /// None: no member section is written at all
    pub members: Option<Vec<MemberSpec>>,
    pub items: Vec<ItemSpec>,
    pub mangle: Mangle,
}

#[derive(Clone, Debug, PartialEq, Eq, Serialize, Deserialize)]
pub enum TimerSpec {
    ProbeRandomMember(i8),
    SendIndirectProbe(IdSel, i8),
    ChangeSuspectToDown(IdSel, IncSel, i8),
    PeriodicAnnounce(i8),
    PeriodicAnnounceDown(i8),
    PeriodicGossip(i8),
    RemoveDown(IdSel),
}

#[derive(Clone, Debug, PartialEq, Eq, Serialize, Deserialize)]
pub enum CfgDelta {
    MaxTx(u8),
    NumIndirect(u8),
    MaxPacket(u32),
    NotifyDown(bool),
    SuspectToDown(u32),
    RemoveDown(u32),
    DisableAnnounce,
    DisableAnnounceDown,
    DisableGossip,
    RetimeGossip(u32, u8),
    /// illegal: change probe period
    ProbePeriod(u32),
    /// illegal: change probe rtt
    ProbeRtt(u32),
    /// illegal when currently disabled
    EnableAnnounce,
    EnableAnnounceDown,
    EnableGossip,
}

#[derive(Clone, Debug, PartialEq, Eq, Serialize, Deserialize)]
pub enum Op {
    Data(DataSpec),
    Raw(Vec<u8>),
    /// deliver the k-th outstanding issued timer (any order)
    Fire(u16),
    /// deliver the outstanding timer with the earliest deadline
    FireNext,
    /// deliver again a timer that was already delivered (duplicate / stale)
    FireOld(u16),
    /// hand-crafted timer (only used where the property quantifies over them)
    FireCrafted(TimerSpec),
    ApplyMany(Vec<MemberSpec>, bool),
    Announce(IdSel),
    Gossip,
    Broadcast,
    AddBroadcast(ItemSpec),
    AddBroadcastRaw(Vec<u8>),
    /// an item of `len` bytes (key, version, then filler): for limits far above 64 KiB
    AddBroadcastBig { len: u32, key: u8, version: u8 },
    Leave,
    ChangeIdentity(IdSel, u8),
    ReuseDown,
    SetConfig(CfgDelta),
}

#[derive(Clone, Debug, PartialEq, Eq, Serialize, Deserialize)]
pub struct Setup {
    pub own_gen: u8,
    pub own_renew: u8,
    pub cfg: CfgSpec,
    pub codec: CodecKind,
    pub rng_seed: u64,
    pub handler: HandlerSpec,
}

#[derive(Clone, Debug, PartialEq, Eq, Serialize, Deserialize)]
pub struct Case {
    pub setup: Setup,
    pub ops: Vec<Op>,
}

#[derive(Clone, Debug)]
pub struct Pending {
    pub timer: Timer<Id>,
    pub after_us: u64,
    pub deadline_us: u64,
    pub seq: u64,
    /// index of the call that issued it
    pub issued_in: usize,
}

/// How the timer delivered in a step was obtained.
#[derive(Clone, Debug)]
pub enum Origin {
    NotTimer,
    Issued(Pending),
    /// an already delivered timer delivered again
    Old(Pending),
    Crafted,
}

pub struct Runner {
    pub inst: Inst,
    pub pool: Vec<Pending>,
    pub delivered: Vec<Pending>,
    pub now_us: u64,
    pub seq: u64,
    pub ncalls: usize,
    pub last_ping: Option<(Id, u8)>,
    pub helpers: Vec<Id>,
    /// skip change_identity onto a foreign address that an active record holds
    pub no_active_takeover: bool,
}

fn midx(raw: u16, len: usize) -> usize {
    ((raw as usize) * len) >> 16
}

fn st(b: u8) -> State {
    match b % 3 {
        0 => State::Alive,
        1 => State::Suspect,
        _ => State::Down,
    }
}

impl Runner {
    pub fn new(s: &Setup) -> Self {
        Self::with_addr(s, OWN_ADDR)
    }

    pub fn with_addr(s: &Setup, addr: u16) -> Self {
        let id = Id::with_renew(addr, s.own_gen as u16, s.own_renew);
        Runner {
            inst: Inst::new(id, s.cfg.clone(), s.codec, s.rng_seed, s.handler),
            pool: Vec::new(),
            delivered: Vec::new(),
            now_us: 0,
            seq: 0,
            ncalls: 0,
            last_ping: None,
            helpers: Vec::new(),
            no_active_takeover: false,
        }
    }

    pub fn own(&self) -> Id {
        *self.inst.foca.identity()
    }

    pub fn resolve_id(&self, s: &IdSel) -> Id {
        match s {
            IdSel::Abs(a, g) => Id::new(*a as u16, *g as u16),
            IdSel::Rec(k) => {
                let n = self.inst.foca.iter_membership_state().len();
                if n == 0 {
                    Id::new(1, 0)
                } else {
                    *self.inst.foca.iter_membership_state().nth(midx(*k, n)).unwrap().id()
                }
            }
            IdSel::ProbeTarget => self.last_ping.map(|p| p.0).unwrap_or(Id::new(1, 0)),
            IdSel::Helper(k) => {
                if self.helpers.is_empty() {
                    Id::new(2, 0)
                } else {
                    self.helpers[(*k as usize) % self.helpers.len()]
                }
            }
            IdSel::Own => self.own(),
            IdSel::OwnAddr(g) => Id::new(self.own().addr, *g as u16),
            IdSel::ProbeTargetGen(d) => {
                let t = self.last_ping.map(|p| p.0).unwrap_or(Id::new(1, 0));
                Id::new(t.addr, (t.gen as i32 + *d as i32).max(0) as u16)
            }
        }
    }

    fn known_inc(&self, id: &Id) -> u16 {
        if *id == self.own() {
            return self.inst.foca.verif_snapshot().incarnation;
        }
        self.inst
            .foca
            .iter_membership_state()
            .find(|m| m.id().addr == id.addr)
            .map(|m| m.incarnation())
            .unwrap_or(0)
    }

    pub fn resolve_inc(&self, s: &IncSel, id: &Id) -> u16 {
        match s {
            IncSel::Abs(v) => *v,
            IncSel::Rel(d) => (self.known_inc(id) as i32 + *d as i32).clamp(0, u16::MAX as i32) as u16,
            IncSel::FromMax(k) => u16::MAX - (*k as u16),
        }
    }

    fn resolve_no(&self, s: &NoSel) -> u8 {
        let cur = self.last_ping.map(|p| p.1).unwrap_or(0);
        match s {
            NoSel::Cur => cur,
            NoSel::Prev => cur.wrapping_sub(1),
            NoSel::Next => cur.wrapping_add(1),
            NoSel::Abs(v) => *v,
        }
    }

    pub fn resolve_member(&self, m: &MemberSpec) -> Member<Id> {
        let id = self.resolve_id(&m.id);
        Member::new(id, self.resolve_inc(&m.inc, &id), st(m.state))
    }

    pub fn resolve_msg(&self, m: &MsgSel) -> Message<Id> {
        match m {
            MsgSel::Ping(n) => Message::Ping(self.resolve_no(n)),
            MsgSel::Ack(n) => Message::Ack(self.resolve_no(n)),
            MsgSel::PingReq(i, n) => Message::PingReq { target: self.resolve_id(i), probe_number: self.resolve_no(n) },
            MsgSel::IndirectPing(i, n) => {
                Message::IndirectPing { origin: self.resolve_id(i), probe_number: self.resolve_no(n) }
            }
            MsgSel::IndirectAck(i, n) => {
                Message::IndirectAck { target: self.resolve_id(i), probe_number: self.resolve_no(n) }
            }
            MsgSel::ForwardedAck(i, n) => {
                Message::ForwardedAck { origin: self.resolve_id(i), probe_number: self.resolve_no(n) }
            }
            MsgSel::Announce => Message::Announce,
            MsgSel::Feed => Message::Feed,
            MsgSel::Gossip => Message::Gossip,
            MsgSel::Broadcast => Message::Broadcast,
            MsgSel::TurnUndead => Message::TurnUndead,
        }
    }

    pub fn resolve_data(&self, d: &DataSpec) -> Vec<u8> {
        let src = self.resolve_id(&d.src);
        let header = Header {
            src,
            src_incarnation: self.resolve_inc(&d.inc, &src),
            dst: match d.dst {
                DstSel::Me => self.own(),
                DstSel::MeGen(g) => Id::new(self.own().addr, g as u16),
                DstSel::Abs(a, g) => Id::new(a as u16, g as u16),
            },
            message: self.resolve_msg(&d.msg),
        };
        let members: Option<Vec<Member<Id>>> =
            d.members.as_ref().map(|ms| ms.iter().map(|m| self.resolve_member(m)).collect());
        let items: Vec<Vec<u8>> = d.items.iter().map(|i| i.bytes()).collect();
        let hdr_len = wire::header_bytes_len(self.inst.codec, &header);
        let mut bytes = wire::build(self.inst.codec, &header, members.as_deref(), &items);
        match d.mangle {
            Mangle::None => {}
            Mangle::Truncate(n) => {
                let k = midx(n, bytes.len());
                bytes.truncate(k);
            }
            Mangle::TrailingByte(b) => {
                bytes.truncate(hdr_len);
                bytes.push(b);
            }
            Mangle::Flip(p, x) => {
                if !bytes.is_empty() {
                    let k = midx(p, bytes.len());
                    bytes[k] ^= x | 1;
                }
            }
            Mangle::Append(n, b) => {
                for i in 0..(n % 9) {
                    bytes.push(b.wrapping_add(i));
                }
            }
            Mangle::Count(c) => {
                if members.is_some() && bytes.len() >= hdr_len + 2 {
                    bytes[hdr_len..hdr_len + 2].copy_from_slice(&c.to_be_bytes());
                }
            }
            Mangle::EmptyItem(k) => {
                bytes.extend_from_slice(&[0, 0]);
                for i in 0..(k % 4) {
                    bytes.push(k.wrapping_add(i));
                }
            }
            Mangle::Oversize(k) => {
                let want = self.inst.cfg.max_packet as usize + 1 + k as usize;
                while bytes.len() < want {
                    bytes.push(0x5A);
                }
            }
        }
        bytes
    }

    fn resolve_timer(&self, t: &TimerSpec) -> Timer<Id> {
        let tok = |d: &i8| self.inst.foca.verif_snapshot().timer_token.wrapping_add(*d as u8);
        match t {
            TimerSpec::ProbeRandomMember(d) => Timer::ProbeRandomMember(tok(d)),
            TimerSpec::SendIndirectProbe(i, d) => Timer::SendIndirectProbe { probed_id: self.resolve_id(i), token: tok(d) },
            TimerSpec::ChangeSuspectToDown(i, inc, d) => {
                let id = self.resolve_id(i);
                Timer::ChangeSuspectToDown { member_id: id, incarnation: self.resolve_inc(inc, &id), token: tok(d) }
            }
            TimerSpec::PeriodicAnnounce(d) => Timer::PeriodicAnnounce(tok(d)),
            TimerSpec::PeriodicAnnounceDown(d) => Timer::PeriodicAnnounceDown(tok(d)),
            TimerSpec::PeriodicGossip(d) => Timer::PeriodicGossip(tok(d)),
            TimerSpec::RemoveDown(i) => Timer::RemoveDown(self.resolve_id(i)),
        }
    }

    pub fn apply_cfg_delta(&self, d: &CfgDelta) -> CfgSpec {
        let mut c = self.inst.cfg.clone();
        match d {
            CfgDelta::MaxTx(v) => c.max_tx = (*v).max(1),
            CfgDelta::NumIndirect(v) => c.num_indirect = (*v).max(1),
            CfgDelta::MaxPacket(v) => c.max_packet = (*v).max(1),
            CfgDelta::NotifyDown(b) => c.notify_down = *b,
            CfgDelta::SuspectToDown(v) => c.suspect_to_down_ms = *v,
            CfgDelta::RemoveDown(v) => c.remove_down_ms = *v,
            CfgDelta::DisableAnnounce => c.periodic_announce = None,
            CfgDelta::DisableAnnounceDown => c.periodic_announce_down = None,
            CfgDelta::DisableGossip => c.periodic_gossip = None,
            CfgDelta::RetimeGossip(ms, n) => {
                if c.periodic_gossip.is_some() {
                    c.periodic_gossip = Some(Periodic { every_ms: (*ms).max(1), num: (*n).max(1) })
                }
            }
            CfgDelta::ProbePeriod(v) => c.probe_period_ms = c.probe_period_ms.wrapping_add((*v).max(1)),
            CfgDelta::ProbeRtt(v) => c.probe_rtt_ms = c.probe_rtt_ms.wrapping_add((*v).max(1)),
            CfgDelta::EnableAnnounce => c.periodic_announce = Some(Periodic { every_ms: 5000, num: 1 }),
            CfgDelta::EnableAnnounceDown => c.periodic_announce_down = Some(Periodic { every_ms: 7000, num: 1 }),
            CfgDelta::EnableGossip => c.periodic_gossip = Some(Periodic { every_ms: 400, num: 2 }),
        }
        c
    }

    /// Turns a symbolic op into a concrete call (None: not applicable in this state).
    pub fn concretize(&mut self, op: &Op) -> Option<(Call, Origin)> {
        Some(match op {
            Op::Data(d) => (Call::Data(self.resolve_data(d)), Origin::NotTimer),
            Op::Raw(b) => (Call::Data(b.clone()), Origin::NotTimer),
            Op::Fire(k) => {
                if self.pool.is_empty() {
                    return None;
                }
                let i = midx(*k, self.pool.len());
                let p = self.pool.remove(i);
                self.now_us = self.now_us.max(p.deadline_us);
                (Call::Timer(p.timer.clone()), Origin::Issued(p))
            }
            Op::FireNext => {
                if self.pool.is_empty() {
                    return None;
                }
                let mut best = 0;
                for i in 1..self.pool.len() {
                    let (a, b) = (&self.pool[i], &self.pool[best]);
                    let ord = a
                        .deadline_us
                        .cmp(&b.deadline_us)
                        .then_with(|| a.timer.cmp(&b.timer))
                        .then_with(|| a.seq.cmp(&b.seq));
                    if ord == std::cmp::Ordering::Less {
                        best = i;
                    }
                }
                let p = self.pool.remove(best);
                self.now_us = self.now_us.max(p.deadline_us);
                (Call::Timer(p.timer.clone()), Origin::Issued(p))
            }
            Op::FireOld(k) => {
                if self.delivered.is_empty() {
                    return None;
                }
                let i = midx(*k, self.delivered.len());
                let p = self.delivered[i].clone();
                (Call::Timer(p.timer.clone()), Origin::Old(p))
            }
            Op::FireCrafted(t) => (Call::Timer(self.resolve_timer(t)), Origin::Crafted),
            Op::ApplyMany(ms, b) => (Call::ApplyMany(ms.iter().map(|m| self.resolve_member(m)).collect(), *b), Origin::NotTimer),
            Op::Announce(i) => (Call::Announce(self.resolve_id(i)), Origin::NotTimer),
            Op::Gossip => (Call::Gossip, Origin::NotTimer),
            Op::Broadcast => (Call::Broadcast, Origin::NotTimer),
            Op::AddBroadcast(i) => (Call::AddBroadcast(i.bytes()), Origin::NotTimer),
            Op::AddBroadcastRaw(b) => (Call::AddBroadcast(b.clone()), Origin::NotTimer),
            Op::AddBroadcastBig { len, key, version } => {
                let mut b = vec![0x5Au8; *len as usize];
                if let Some(x) = b.get_mut(0) {
                    *x = *key;
                }
                if let Some(x) = b.get_mut(1) {
                    *x = *version;
                }
                (Call::AddBroadcast(b), Origin::NotTimer)
            }
            Op::Leave => (Call::Leave, Origin::NotTimer),
            Op::ChangeIdentity(i, r) => {
                let mut id = self.resolve_id(i);
                id.renew = *r;
                if self.no_active_takeover && id.addr != self.own().addr && self.inst.foca.iter_members().any(|m| m.id().addr == id.addr) {
                    return None;
                }
                (Call::ChangeIdentity(id), Origin::NotTimer)
            }
            Op::ReuseDown => (Call::ReuseDown, Origin::NotTimer),
            Op::SetConfig(d) => (Call::SetConfig(self.apply_cfg_delta(d)), Origin::NotTimer),
        })
    }

    /// Book-keeping after a call: collect issued timers, remember the probe round.
    pub fn absorb(&mut self, rec: &CallRec, origin: &Origin) {
        if let Origin::Issued(p) = origin {
            self.delivered.push(p.clone());
            if self.delivered.len() > 64 {
                self.delivered.remove(0);
            }
        }
        for e in &rec.evs {
            match e {
                Ev::Timer { timer, after } => {
                    let after_us = after.as_micros() as u64;
                    self.seq += 1;
                    self.pool.push(Pending {
                        timer: timer.clone(),
                        after_us,
                        deadline_us: self.now_us.saturating_add(after_us),
                        seq: self.seq,
                        issued_in: self.ncalls,
                    });
                }
                Ev::Send { to, bytes } => {
                    if let Ok(d) = wire::parse(bytes, self.inst.codec) {
                        match d.header.message {
                            Message::Ping(n) => {
                                self.last_ping = Some((*to, n));
                                self.helpers.clear();
                            }
                            Message::PingReq { .. } => self.helpers.push(*to),
                            _ => {}
                        }
                    }
                }
                _ => {}
            }
        }
        self.ncalls += 1;
    }

    pub fn step(&mut self, op: &Op) -> Option<(CallRec, Origin)> {
        if self.inst.poisoned {
            return None;
        }
        let (call, origin) = self.concretize(op)?;
        let rec = self.inst.call(call);
        self.absorb(&rec, &origin);
        Some((rec, origin))
    }
}

pub fn token_of(t: &Timer<Id>) -> Option<u8> {
    timer_token(t)
}

// ---------------------------------------------------------------------------------------
// Strategies
// ---------------------------------------------------------------------------------------

/// What the generator may produce; each property restricts the alphabet to its quantifier's domain.
#[derive(Clone, Debug)]
pub struct Profile {
    pub n_addr: u8,
    pub n_gen: u8,
    pub crafted_timers: bool,
    pub old_timers: bool,
    pub raw_data: bool,
    pub mangle: bool,
    /// weight (against 20) of datagrams that end in a zero-length custom item (`00 00` + 0..3 junk bytes)
    pub empty_items: u32,
    pub set_config: bool,
    pub illegal_config: bool,
    pub packet_resize: bool,
    pub in_order_only: bool,
    pub any_order: bool,
    pub change_identity: bool,
    /// allow change_identity to a foreign address
    pub change_addr: bool,
    /// with change_addr: never onto an address an active record holds
    pub takeover_inactive_only: bool,
    pub leave: bool,
    pub items: bool,
    pub max_len: usize,
    pub weird_renew: bool,
    pub big_incarnations: bool,
    pub self_updates: u32,
    pub api_sends: u32,
    pub timers_weight: u32,
}

impl Default for Profile {
    fn default() -> Self {
        Profile {
            n_addr: 5,
            n_gen: 4,
            crafted_timers: false,
            old_timers: false,
            raw_data: false,
            mangle: false,
            empty_items: 0,
            set_config: true,
            illegal_config: false,
            packet_resize: false,
            in_order_only: false,
            any_order: true,
            change_identity: true,
            change_addr: false,
            takeover_inactive_only: false,
            leave: true,
            items: true,
            max_len: 80,
            weird_renew: false,
            big_incarnations: true,
            self_updates: 3,
            api_sends: 4,
            timers_weight: 30,
        }
    }
}

pub fn id_sel(p: &Profile) -> BoxedStrategy<IdSel> {
    let (na, ng) = (p.n_addr, p.n_gen);
    prop_oneof![
        6 => (1..na, 0..ng).prop_map(|(a, g)| IdSel::Abs(a, g)),
        3 => any::<u16>().prop_map(IdSel::Rec),
        2 => Just(IdSel::ProbeTarget),
        1 => (0..3u8).prop_map(IdSel::Helper),
        1 => Just(IdSel::Own),
        2 => (0..ng + 1).prop_map(IdSel::OwnAddr),
        1 => (-1..2i8).prop_map(IdSel::ProbeTargetGen),
    ]
    .boxed()
}

/// identity selector that is never on the instance's own address
pub fn foreign_id_sel(p: &Profile) -> BoxedStrategy<IdSel> {
    let (na, ng) = (p.n_addr, p.n_gen);
    prop_oneof![
        6 => (1..na, 0..ng).prop_map(|(a, g)| IdSel::Abs(a, g)),
        3 => any::<u16>().prop_map(IdSel::Rec),
        2 => Just(IdSel::ProbeTarget),
        1 => (0..3u8).prop_map(IdSel::Helper),
        1 => (-1..2i8).prop_map(IdSel::ProbeTargetGen),
    ]
    .boxed()
}

pub fn inc_sel(p: &Profile) -> BoxedStrategy<IncSel> {
    if p.big_incarnations {
        prop_oneof![
            5 => (0..4u16).prop_map(IncSel::Abs),
            6 => (-2..3i8).prop_map(IncSel::Rel),
            2 => (0..3u8).prop_map(IncSel::FromMax),
            1 => any::<u16>().prop_map(IncSel::Abs),
        ]
        .boxed()
    } else {
        prop_oneof![
            5 => (0..4u16).prop_map(IncSel::Abs),
            6 => (-2..3i8).prop_map(IncSel::Rel),
        ]
        .boxed()
    }
}

pub fn no_sel() -> BoxedStrategy<NoSel> {
    prop_oneof![
        6 => Just(NoSel::Cur),
        1 => Just(NoSel::Prev),
        1 => Just(NoSel::Next),
        1 => any::<u8>().prop_map(NoSel::Abs),
    ]
    .boxed()
}

pub fn msg_sel(p: &Profile) -> BoxedStrategy<MsgSel> {
    let ids = id_sel(p);
    prop_oneof![
        3 => no_sel().prop_map(MsgSel::Ping),
        4 => no_sel().prop_map(MsgSel::Ack),
        2 => (ids.clone(), no_sel()).prop_map(|(i, n)| MsgSel::PingReq(i, n)),
        2 => (ids.clone(), no_sel()).prop_map(|(i, n)| MsgSel::IndirectPing(i, n)),
        2 => (ids.clone(), no_sel()).prop_map(|(i, n)| MsgSel::IndirectAck(i, n)),
        3 => (ids, no_sel()).prop_map(|(i, n)| MsgSel::ForwardedAck(i, n)),
        2 => Just(MsgSel::Announce),
        2 => Just(MsgSel::Feed),
        4 => Just(MsgSel::Gossip),
        1 => Just(MsgSel::Broadcast),
        2 => Just(MsgSel::TurnUndead),
    ]
    .boxed()
}

pub fn member_spec(p: &Profile) -> BoxedStrategy<MemberSpec> {
    let self_w = p.self_updates;
    let id = prop_oneof![
        10 => id_sel(p),
        self_w => Just(IdSel::Own),
    ];
    (id, inc_sel(p), 0..3u8).prop_map(|(id, inc, state)| MemberSpec { id, inc, state }).boxed()
}

pub fn item_spec() -> BoxedStrategy<ItemSpec> {
    (prop_oneof![8 => 0..4u8, 1 => any::<u8>()], 0..4u8, prop_oneof![6 => 0..6u16, 2 => 0..40u16])
        .prop_map(|(key, version, pad)| ItemSpec { key, version, pad })
        .boxed()
}

pub fn mangle() -> BoxedStrategy<Mangle> {
    prop_oneof![
        2 => any::<u16>().prop_map(Mangle::Truncate),
        2 => any::<u8>().prop_map(Mangle::TrailingByte),
        2 => (any::<u16>(), any::<u8>()).prop_map(|(a, b)| Mangle::Flip(a, b)),
        1 => (any::<u8>(), any::<u8>()).prop_map(|(a, b)| Mangle::Append(a, b)),
        1 => any::<u8>().prop_map(Mangle::EmptyItem),
        1 => prop_oneof![Just(0u16), Just(1), Just(200), Just(u16::MAX), any::<u16>()].prop_map(Mangle::Count),
    ]
    .boxed()
}

pub fn data_spec(p: &Profile) -> BoxedStrategy<DataSpec> {
    let src = prop_oneof![
        12 => foreign_id_sel(p),
        1 => Just(IdSel::Own),
        1 => (0..p.n_gen + 1).prop_map(IdSel::OwnAddr),
    ];
    let dst = prop_oneof![
        14 => Just(DstSel::Me),
        1 => (0..p.n_gen + 1).prop_map(DstSel::MeGen),
        1 => (0..p.n_addr, 0..p.n_gen).prop_map(|(a, g)| DstSel::Abs(a, g)),
    ];
    let members = prop_oneof![
        1 => Just(None),
        6 => proptest::collection::vec(member_spec(p), 0..5).prop_map(Some),
    ];
    let items = if p.items { proptest::collection::vec(item_spec(), 0..3).boxed() } else { Just(Vec::new()).boxed() };
    let mg = if p.mangle {
        prop_oneof![5 => Just(Mangle::None), 2 => mangle()].boxed()
    } else if p.empty_items > 0 {
        prop_oneof![20 => Just(Mangle::None), p.empty_items => any::<u8>().prop_map(Mangle::EmptyItem)].boxed()
    } else {
        Just(Mangle::None).boxed()
    };
    (src, inc_sel(p), dst, msg_sel(p), members, items, mg)
        .prop_map(|(src, inc, dst, msg, members, items, mangle)| {
            // kinds that never carry a member section are built without one (a valid peer never sends one)
            let members = match msg {
                MsgSel::Announce | MsgSel::TurnUndead | MsgSel::Broadcast => None,
                _ => members,
            };
            let items = match msg {
                MsgSel::Announce | MsgSel::TurnUndead => Vec::new(),
                _ => {
                    if members.is_none() && !matches!(msg, MsgSel::Broadcast) {
                        Vec::new()
                    } else {
                        items
                    }
                }
            };
            DataSpec { src, inc, dst, msg, members, items, mangle }
        })
        .boxed()
}

pub fn timer_spec(p: &Profile) -> BoxedStrategy<TimerSpec> {
    let d = prop_oneof![4 => Just(0i8), 1 => -2..3i8, 1 => any::<i8>()];
    prop_oneof![
        d.clone().prop_map(TimerSpec::ProbeRandomMember),
        (id_sel(p), d.clone()).prop_map(|(i, d)| TimerSpec::SendIndirectProbe(i, d)),
        (id_sel(p), inc_sel(p), d.clone()).prop_map(|(i, n, d)| TimerSpec::ChangeSuspectToDown(i, n, d)),
        d.clone().prop_map(TimerSpec::PeriodicAnnounce),
        d.clone().prop_map(TimerSpec::PeriodicAnnounceDown),
        d.prop_map(TimerSpec::PeriodicGossip),
        id_sel(p).prop_map(TimerSpec::RemoveDown),
    ]
    .boxed()
}

pub fn cfg_delta(p: &Profile) -> BoxedStrategy<CfgDelta> {
    let mut v: Vec<(u32, BoxedStrategy<CfgDelta>)> = vec![
        (2, prop_oneof![1..6u8, any::<u8>()].prop_map(CfgDelta::MaxTx).boxed()),
        (2, (1..5u8).prop_map(CfgDelta::NumIndirect).boxed()),
        (1, any::<bool>().prop_map(CfgDelta::NotifyDown).boxed()),
        (1, (1..10_000u32).prop_map(CfgDelta::SuspectToDown).boxed()),
        (1, (1..100_000u32).prop_map(CfgDelta::RemoveDown).boxed()),
        (1, Just(CfgDelta::DisableAnnounce).boxed()),
        (1, Just(CfgDelta::DisableAnnounceDown).boxed()),
        (1, Just(CfgDelta::DisableGossip).boxed()),
        (1, (1..3000u32, 1..4u8).prop_map(|(a, b)| CfgDelta::RetimeGossip(a, b)).boxed()),
    ];
    if p.packet_resize {
        v.push((3, prop_oneof![1..64u32, 64..2000u32, 60_000..70_000u32].prop_map(CfgDelta::MaxPacket).boxed()));
    }
    if p.illegal_config {
        v.push((1, (1..1000u32).prop_map(CfgDelta::ProbePeriod).boxed()));
        v.push((1, (1..1000u32).prop_map(CfgDelta::ProbeRtt).boxed()));
        v.push((1, Just(CfgDelta::EnableAnnounce).boxed()));
        v.push((1, Just(CfgDelta::EnableAnnounceDown).boxed()));
        v.push((1, Just(CfgDelta::EnableGossip).boxed()));
    }
    proptest::strategy::Union::new_weighted(v).boxed()
}

pub fn op(p: &Profile) -> BoxedStrategy<Op> {
    let mut v: Vec<(u32, BoxedStrategy<Op>)> = vec![
        (34, data_spec(p).prop_map(Op::Data).boxed()),
        (8, (proptest::collection::vec(member_spec(p), 1..5), prop_oneof![4 => Just(true), 1 => Just(false)])
            .prop_map(|(m, b)| Op::ApplyMany(m, b))
            .boxed()),
        (p.api_sends, prop_oneof![
            foreign_id_sel(p).prop_map(Op::Announce),
            Just(Op::Gossip),
            Just(Op::Broadcast),
        ]
        .boxed()),
        (1, Just(Op::ReuseDown).boxed()),
    ];
    if p.any_order && !p.in_order_only {
        v.push((p.timers_weight * 2 / 3, any::<u16>().prop_map(Op::Fire).boxed()));
        v.push((p.timers_weight / 3, Just(Op::FireNext).boxed()));
    } else {
        v.push((p.timers_weight, Just(Op::FireNext).boxed()));
    }
    if p.old_timers {
        v.push((4, any::<u16>().prop_map(Op::FireOld).boxed()));
    }
    if p.crafted_timers {
        v.push((5, timer_spec(p).prop_map(Op::FireCrafted).boxed()));
    }
    if p.raw_data {
        v.push((4, proptest::collection::vec(any::<u8>(), 0..40).prop_map(Op::Raw).boxed()));
        v.push((1, proptest::collection::vec(any::<u8>(), 0..64).prop_map(Op::AddBroadcastRaw).boxed()));
    }
    if p.items {
        v.push((4, item_spec().prop_map(Op::AddBroadcast).boxed()));
    }
    if p.leave {
        v.push((1, Just(Op::Leave).boxed()));
    }
    if p.change_identity {
        let renew = if p.weird_renew { (0..RENEW_MODES).boxed() } else { prop_oneof![Just(RENEW_NONE), Just(RENEW_NEXT)].boxed() };
        let sel = if p.change_addr {
            prop_oneof![3 => (0..p.n_gen + 2).prop_map(IdSel::OwnAddr), 1 => id_sel(p)].boxed()
        } else {
            (0..p.n_gen + 2).prop_map(IdSel::OwnAddr).boxed()
        };
        v.push((2, (sel, renew).prop_map(|(i, r)| Op::ChangeIdentity(i, r)).boxed()));
    }
    if p.set_config {
        v.push((2, cfg_delta(p).prop_map(Op::SetConfig).boxed()));
    }
    proptest::strategy::Union::new_weighted(v).boxed()
}

#[derive(Clone, Debug)]
pub struct SetupProfile {
    pub codecs: Vec<CodecKind>,
    pub packet: Vec<(u32, u32)>,
    pub max_tx: (u8, u8),
    pub periodic: bool,
    pub notify_down: Option<bool>,
    pub handler: bool,
    pub weird_renew: bool,
}

impl Default for SetupProfile {
    fn default() -> Self {
        SetupProfile {
            codecs: vec![CodecKind::Fix],
            packet: vec![(1400, 1401)],
            max_tx: (1, 6),
            periodic: true,
            notify_down: None,
            handler: true,
            weird_renew: false,
        }
    }
}

pub fn handler_spec() -> BoxedStrategy<HandlerSpec> {
    (
        prop_oneof![
            Just(Inval::SameKeyHigherVersion),
            Just(Inval::SameKeyAny),
            Just(Inval::Never),
            Just(Inval::Everything)
        ],
        prop_oneof![4 => Just(Accept::NewVersionOnly), 2 => Just(Accept::Always), 1 => Just(Accept::Never)],
        prop_oneof![3 => Just(u32::MAX), 2 => any::<u32>()],
        prop_oneof![2 => Just(false), 1 => Just(true)],
    )
        .prop_map(|(inval, accept, recipients, accept_empty)| HandlerSpec { enabled: true, inval, accept, recipients, accept_empty })
        .boxed()
}

pub fn periodic(lo: u32, hi: u32) -> BoxedStrategy<Option<Periodic>> {
    prop_oneof![
        1 => Just(None),
        1 => (lo..hi, 1..4u8).prop_map(|(every_ms, num)| Some(Periodic { every_ms, num })),
    ]
    .boxed()
}

pub fn setup(sp: &SetupProfile) -> BoxedStrategy<Setup> {
    let codecs = sp.codecs.clone();
    let packet: Vec<BoxedStrategy<u32>> = sp.packet.iter().map(|(a, b)| (*a..*b).boxed()).collect();
    let renew = if sp.weird_renew { (0..RENEW_MODES).boxed() } else { prop_oneof![Just(RENEW_NONE), Just(RENEW_NEXT)].boxed() };
    let per = sp.periodic;
    let notify = match sp.notify_down {
        Some(b) => Just(b).boxed(),
        None => any::<bool>().boxed(),
    };
    let handler = if sp.handler {
        prop_oneof![1 => Just(HandlerSpec::OFF), 3 => Just(HandlerSpec::SIMPLE), 2 => handler_spec()].boxed()
    } else {
        Just(HandlerSpec::OFF).boxed()
    };
    let cfg = (
        (1..4u8, sp.max_tx.0..=sp.max_tx.1, proptest::strategy::Union::new(packet), notify),
        if per { periodic(2000, 9000) } else { Just(None).boxed() },
        if per { periodic(3000, 12000) } else { Just(None).boxed() },
        if per { periodic(200, 1500) } else { Just(None).boxed() },
        (2..7u32),
    )
        .prop_map(|((num_indirect, max_tx, max_packet, notify_down), pa, pad, pg, s2d)| CfgSpec {
            probe_period_ms: 1000,
            probe_rtt_ms: 300,
            num_indirect,
            max_tx,
            suspect_to_down_ms: s2d * 1000,
            remove_down_ms: 20_000,
            max_packet,
            notify_down,
            periodic_announce: pa,
            periodic_announce_down: pad,
            periodic_gossip: pg,
        });
    (0..3u8, renew, cfg, proptest::sample::select(codecs), any::<u64>(), handler)
        .prop_map(|(own_gen, own_renew, cfg, codec, rng_seed, handler)| Setup { own_gen, own_renew, cfg, codec, rng_seed, handler })
        .boxed()
}

pub fn case(sp: &SetupProfile, p: &Profile) -> BoxedStrategy<Case> {
    (setup(sp), proptest::collection::vec(op(p), 1..p.max_len)).prop_map(|(setup, ops)| Case { setup, ops }).boxed()
}

pub fn render_history(recs: &[CallRec], codec: CodecKind, last: usize) -> String {
    let start = recs.len().saturating_sub(last);
    let mut s = String::new();
    for (i, r) in recs.iter().enumerate().skip(start) {
        s.push_str(&format!("  #{i} {}\n", r.render(codec)));
    }
    s
}
