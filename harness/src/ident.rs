//! Harness identity. One concrete type is used by every Foca-level check so the
//! whole engine is monomorphic; wire length variability comes from the codec.
use foca::Identity;
use serde::{Deserialize, Serialize};

/// How `renew()` behaves. Only ever consulted on an instance's *own* identity.
pub const RENEW_NONE: u8 = 0; // None
pub const RENEW_NEXT: u8 = 1; // gen+1, keeps renewing
pub const RENEW_SAME: u8 = 2; // misbehaving-but-legal: returns itself
pub const RENEW_LOSE: u8 = 3; // misbehaving-but-legal: returns an identity that loses the conflict
pub const RENEW_ONCE: u8 = 4; // gen+1, the renewed identity cannot renew again
pub const RENEW_WRAP: u8 = 5; // (gen+1) % 4: wins three times, then yields a losing identity and starts over
pub const RENEW_MODES: u8 = 6;

#[derive(Clone, Copy, Serialize, Deserialize)]
pub struct Id {
    pub addr: u16,
    pub gen: u16,
    /// not part of Eq / Ord / hand-written wire forms (like testing::ID::rejoinable)
    #[serde(default)]
    pub renew: u8,
}

impl Id {
    pub const fn new(addr: u16, gen: u16) -> Self {
        Id { addr, gen, renew: RENEW_NONE }
    }
    pub const fn with_renew(addr: u16, gen: u16, renew: u8) -> Self {
        Id { addr, gen, renew }
    }
    pub fn key(&self) -> (u16, u16) {
        (self.addr, self.gen)
    }
}

impl PartialEq for Id {
    fn eq(&self, o: &Self) -> bool {
        self.addr == o.addr && self.gen == o.gen
    }
}
impl Eq for Id {}
impl PartialOrd for Id {
    fn partial_cmp(&self, o: &Self) -> Option<std::cmp::Ordering> {
        Some(self.cmp(o))
    }
}
impl Ord for Id {
    fn cmp(&self, o: &Self) -> std::cmp::Ordering {
        self.key().cmp(&o.key())
    }
}
impl std::hash::Hash for Id {
    fn hash<H: std::hash::Hasher>(&self, h: &mut H) {
        self.key().hash(h)
    }
}
impl std::fmt::Debug for Id {
    fn fmt(&self, f: &mut std::fmt::Formatter<'_>) -> std::fmt::Result {
        write!(f, "{}.{}", self.addr, self.gen)
    }
}
impl std::fmt::Display for Id {
    fn fmt(&self, f: &mut std::fmt::Formatter<'_>) -> std::fmt::Result {
        write!(f, "{}.{}", self.addr, self.gen)
    }
}

impl Identity for Id {
    type Addr = u16;

    fn renew(&self) -> Option<Self> {
        match self.renew {
            RENEW_NEXT => self.gen.checked_add(1).map(|g| Id { addr: self.addr, gen: g, renew: RENEW_NEXT }),
            RENEW_ONCE => self.gen.checked_add(1).map(|g| Id { addr: self.addr, gen: g, renew: RENEW_NONE }),
            RENEW_WRAP => Some(Id { addr: self.addr, gen: (self.gen + 1) % 4, renew: RENEW_WRAP }),
            RENEW_SAME => Some(*self),
            RENEW_LOSE => Some(Id { addr: self.addr, gen: self.gen.saturating_sub(1), renew: RENEW_LOSE }),
            _ => None,
        }
    }

    fn addr(&self) -> u16 {
        self.addr
    }

    /// Strict total order per address: the documented contract.
    fn win_addr_conflict(&self, adversary: &Self) -> bool {
        self.gen > adversary.gen
    }
}
