//! Shared check engine: sharded proptest runners, bounded enumerators, evidence,
//! known-findings handling, replay files.
use proptest::strategy::BoxedStrategy;
use proptest::test_runner::{Config, RngAlgorithm, TestCaseError, TestError, TestRng, TestRunner};
use serde::{de::DeserializeOwned, Deserialize, Serialize};
use serde_json::{json, Value};
use std::collections::{BTreeMap, HashSet};
use std::path::{Path, PathBuf};
use std::sync::atomic::{AtomicBool, Ordering};
use std::sync::Mutex;

#[derive(Clone, Copy, Debug, PartialEq, Eq)]
pub enum Tier {
    Quick,
    Thorough,
}
impl Tier {
    pub fn name(&self) -> &'static str {
        match self {
            Tier::Quick => "quick",
            Tier::Thorough => "thorough",
        }
    }
    pub fn pick<T>(&self, q: T, t: T) -> T {
        match self {
            Tier::Quick => q,
            Tier::Thorough => t,
        }
    }
}

pub fn verif_root() -> PathBuf {
    std::env::var("VERIF_ROOT").map(PathBuf::from).unwrap_or_else(|_| PathBuf::from("/verif"))
}

#[derive(Clone, Debug)]
pub struct Fail {
    /// stable, property-specific classification of what failed (matched against known findings)
    pub signature: String,
    pub message: String,
}
impl Fail {
    pub fn new(signature: impl Into<String>, message: impl Into<String>) -> Self {
        Fail { signature: signature.into(), message: message.into() }
    }
}
#[macro_export]
macro_rules! fail {
    ($sig:expr, $($arg:tt)*) => {
        return Err($crate::engine::Fail::new($sig, format!($($arg)*)))
    };
}
#[macro_export]
macro_rules! ensure {
    ($cond:expr, $sig:expr, $($arg:tt)*) => {
        if !($cond) { return Err($crate::engine::Fail::new($sig, format!($($arg)*))); }
    };
}

/// Per-case output of an executor: classification for the evidence file.
#[derive(Default)]
pub struct CaseOut {
    /// hashes of behavioural signatures of non-trivial sub-cases seen in this case
    pub nontrivial: Vec<u64>,
    pub classes: Vec<(&'static str, u64)>,
    pub want_sample: bool,
    pub sample: Option<Value>,
    /// numeric maxima to track (name, value)
    pub maxima: Vec<(&'static str, u64)>,
    /// extra evaluations performed inside this case (e.g. datagrams checked)
    pub sub_evaluations: u64,
}
impl CaseOut {
    pub fn class(&mut self, name: &'static str) {
        self.classes.push((name, 1));
    }
    pub fn class_n(&mut self, name: &'static str, n: u64) {
        if n > 0 {
            self.classes.push((name, n));
        }
    }
    pub fn nontrivial<H: std::hash::Hash>(&mut self, sig: H) {
        self.nontrivial.push(hash_of(&sig));
    }
    pub fn max(&mut self, name: &'static str, v: u64) {
        self.maxima.push((name, v));
    }
}

pub fn hash_of<H: std::hash::Hash>(h: &H) -> u64 {
    use std::hash::Hasher;
    let mut s = std::collections::hash_map::DefaultHasher::new();
    h.hash(&mut s);
    s.finish()
}

/// A sub-check of a property: a generator plus an executable oracle.
pub trait Part: Sync {
    type Case: Serialize + DeserializeOwned + std::fmt::Debug + Clone + Send + 'static;
    fn name(&self) -> &'static str;
    fn strategy(&self, tier: Tier) -> BoxedStrategy<Self::Case>;
    fn cases(&self, tier: Tier) -> u64;
    fn exec(&self, case: &Self::Case, out: &mut CaseOut) -> Result<(), Fail>;
    fn max_shrink_iters(&self) -> u32 {
        4000
    }
}

#[derive(Serialize, Deserialize, Clone, Debug)]
pub struct KnownEntry {
    pub property: String,
    /// "known" or "fixed"
    pub status: String,
    pub signature: String,
    pub what: String,
    #[serde(default)]
    pub commit: Option<String>,
    /// path relative to /verif of the committed minimal replay
    #[serde(default)]
    pub replay: Option<String>,
    #[serde(default)]
    pub line: Option<String>,
}

#[derive(Serialize, Deserialize, Clone, Debug, Default)]
pub struct KnownFile {
    pub findings: Vec<KnownEntry>,
}

pub fn load_known() -> KnownFile {
    let p = verif_root().join("known_findings.json");
    match std::fs::read_to_string(&p) {
        Ok(s) => serde_json::from_str(&s).unwrap_or_else(|e| {
            eprintln!("known_findings.json does not parse: {e}");
            std::process::exit(2)
        }),
        Err(_) => KnownFile::default(),
    }
}

#[derive(Serialize, Deserialize, Clone, Debug)]
pub struct ReplayFile {
    pub property: String,
    pub part: String,
    pub signature: String,
    pub message: String,
    pub case: Value,
}

pub struct Ctx {
    pub id: &'static str,
    pub tier: Tier,
    pub seed: u64,
    pub threads: usize,
    pub known: Vec<KnownEntry>,
    pub started: std::time::Instant,
}

#[derive(Default)]
pub struct Report {
    pub evaluations: u64,
    pub sub_evaluations: u64,
    pub nontrivial: HashSet<u64>,
    pub classes: BTreeMap<String, u64>,
    pub samples: Vec<Value>,
    pub maxima: BTreeMap<String, u64>,
    pub excluded_known: u64,
    pub known_seen: BTreeMap<String, u64>,
    pub violations: Vec<(ReplayFile, PathBuf)>,
    pub exhaustive_parts: Vec<String>,
    pub parts: Vec<Value>,
    pub extra: BTreeMap<String, Value>,
}

impl Report {
    fn merge_case(&mut self, out: CaseOut, max_samples: usize) {
        self.evaluations += 1;
        self.sub_evaluations += out.sub_evaluations;
        for h in out.nontrivial {
            self.nontrivial.insert(h);
        }
        for (c, n) in out.classes {
            *self.classes.entry(c.to_string()).or_insert(0) += n;
        }
        for (m, v) in out.maxima {
            let e = self.maxima.entry(m.to_string()).or_insert(0);
            if v > *e {
                *e = v;
            }
        }
        if let Some(s) = out.sample {
            if self.samples.len() < max_samples {
                self.samples.push(s);
            }
        }
    }
    fn merge(&mut self, o: Report) {
        self.evaluations += o.evaluations;
        self.sub_evaluations += o.sub_evaluations;
        self.nontrivial.extend(o.nontrivial);
        for (c, n) in o.classes {
            *self.classes.entry(c).or_insert(0) += n;
        }
        for (m, v) in o.maxima {
            let e = self.maxima.entry(m).or_insert(0);
            if v > *e {
                *e = v;
            }
        }
        for s in o.samples {
            if self.samples.len() < 6 {
                self.samples.push(s);
            }
        }
        self.excluded_known += o.excluded_known;
        for (k, n) in o.known_seen {
            *self.known_seen.entry(k).or_insert(0) += n;
        }
        self.violations.extend(o.violations);
    }
}

fn seed_bytes(seed: u64, salt: &str, shard: u64) -> [u8; 32] {
    let mut out = [0u8; 32];
    let mut x = seed ^ hash_of(&salt) ^ shard.wrapping_mul(0x9E37_79B9_7F4A_7C15);
    for chunk in out.chunks_mut(8) {
        // splitmix64
        x = x.wrapping_add(0x9E37_79B9_7F4A_7C15);
        let mut z = x;
        z = (z ^ (z >> 30)).wrapping_mul(0xBF58_476D_1CE4_E5B9);
        z = (z ^ (z >> 27)).wrapping_mul(0x94D0_49BB_1331_11EB);
        z ^= z >> 31;
        chunk.copy_from_slice(&z.to_le_bytes());
    }
    out
}

pub fn splitmix(seed: u64, salt: u64) -> u64 {
    let mut z = seed.wrapping_add(salt.wrapping_mul(0x9E37_79B9_7F4A_7C15)).wrapping_add(0x9E37_79B9_7F4A_7C15);
    z = (z ^ (z >> 30)).wrapping_mul(0xBF58_476D_1CE4_E5B9);
    z = (z ^ (z >> 27)).wrapping_mul(0x94D0_49BB_1331_11EB);
    z ^ (z >> 31)
}

impl Ctx {
    pub fn is_known(&self, signature: &str) -> bool {
        self.known.iter().any(|k| k.status == "known" && k.signature == signature)
    }

    fn write_replay(&self, rf: &ReplayFile) -> PathBuf {
        let dir = verif_root().join("replays");
        let _ = std::fs::create_dir_all(&dir);
        let body = serde_json::to_string_pretty(rf).unwrap();
        let h = hash_of(&body);
        let p = dir.join(format!("{}-{}-{:012x}.json", rf.property, rf.part, h & 0xffff_ffff_ffff));
        let _ = std::fs::write(&p, body);
        p
    }

    /// Runs one Part with proptest on all shards. Failures whose signature is a listed known
    /// finding are counted and excluded so the search continues behind them.
    pub fn run_part<P: Part>(&self, part: &P, report: &mut Report) {
        let total = part.cases(self.tier);
        let shards = (self.threads as u64).min(total.max(1));
        let stop = AtomicBool::new(false);
        let merged = Mutex::new(Report::default());
        let t0 = std::time::Instant::now();
        std::thread::scope(|s| {
            for shard in 0..shards {
                let stop = &stop;
                let merged = &merged;
                s.spawn(move || {
                    let n = total / shards + if shard < total % shards { 1 } else { 0 };
                    let mut local = Report::default();
                    let cfg = Config {
                        cases: n as u32,
                        failure_persistence: None,
                        max_shrink_iters: part.max_shrink_iters(),
                        max_shrink_time: 0,
                        verbose: 0,
                        max_global_rejects: 1 << 20,
                        max_local_rejects: 1 << 16,
                        source_file: None,
                        test_name: None,
                        ..Config::default()
                    };
                    let rng = TestRng::from_seed(
                        RngAlgorithm::ChaCha,
                        &seed_bytes(self.seed, &format!("{}/{}", self.id, part.name()), shard),
                    );
                    let mut runner = TestRunner::new_with_rng(cfg, rng);
                    let strat = part.strategy(self.tier);
                    let failed = std::cell::Cell::new(false);
                    let local_cell = std::cell::RefCell::new(&mut local);
                    let last_fail: std::cell::RefCell<Option<Fail>> = std::cell::RefCell::new(None);
                    let res = runner.run(&strat, |case| {
                        if stop.load(Ordering::Relaxed) && !failed.get() {
                            return Ok(());
                        }
                        let mut out = CaseOut::default();
                        out.want_sample = !failed.get() && local_cell.borrow().samples.len() < 2;
                        let r = part.exec(&case, &mut out);
                        match r {
                            Ok(()) => {
                                if !failed.get() {
                                    local_cell.borrow_mut().merge_case(out, 2);
                                }
                                Ok(())
                            }
                            Err(f) => {
                                if self.is_known(&f.signature) {
                                    if !failed.get() {
                                        let mut l = local_cell.borrow_mut();
                                        l.evaluations += 1;
                                        l.excluded_known += 1;
                                        *l.known_seen.entry(f.signature.clone()).or_insert(0) += 1;
                                    }
                                    Ok(())
                                } else {
                                    failed.set(true);
                                    stop.store(true, Ordering::Relaxed);
                                    let msg = f.message.clone();
                                    *last_fail.borrow_mut() = Some(f);
                                    Err(TestCaseError::fail(msg))
                                }
                            }
                        }
                    });
                    drop(local_cell);
                    match res {
                        Ok(()) => {}
                        Err(TestError::Fail(_reason, shrunk)) => {
                            // re-run the shrunk case to get its own signature/message
                            let mut out = CaseOut::default();
                            let f = match part.exec(&shrunk, &mut out) {
                                Err(f) => f,
                                Ok(()) => last_fail.borrow().clone().unwrap_or(Fail::new("unknown", "shrunk case passes")),
                            };
                            let rf = ReplayFile {
                                property: self.id.to_string(),
                                part: part.name().to_string(),
                                signature: f.signature.clone(),
                                message: f.message.clone(),
                                case: serde_json::to_value(&shrunk).unwrap(),
                            };
                            let path = self.write_replay(&rf);
                            local.violations.push((rf, path));
                        }
                        Err(TestError::Abort(reason)) => {
                            eprintln!("[{}:{}] generator aborted: {}", self.id, part.name(), reason);
                            std::process::exit(2);
                        }
                    }
                    merged.lock().unwrap().merge(local);
                });
            }
        });
        let m = merged.into_inner().unwrap();
        report.parts.push(json!({
            "part": part.name(), "cases": m.evaluations, "excluded_known": m.excluded_known,
            "violations": m.violations.len(), "wall_s": t0.elapsed().as_secs_f64(), "generator": "proptest (random + shrinking)"
        }));
        report.merge(m);
    }

    /// Runs an enumerated (finite, complete) space. `total` cases indexed 0..total.
    pub fn run_enum<C, G, E>(&self, name: &'static str, total: u64, gen: G, exec: E, report: &mut Report, exhaustive: bool)
    where
        C: Serialize + Send,
        G: Fn(u64) -> C + Sync,
        E: Fn(&C, &mut CaseOut) -> Result<(), Fail> + Sync,
    {
        let shards = (self.threads as u64).min(total.max(1));
        let merged = Mutex::new(Report::default());
        let stop = AtomicBool::new(false);
        let t0 = std::time::Instant::now();
        std::thread::scope(|s| {
            for shard in 0..shards {
                let (gen, exec, merged, stop) = (&gen, &exec, &merged, &stop);
                s.spawn(move || {
                    let mut local = Report::default();
                    let mut i = shard;
                    while i < total {
                        if stop.load(Ordering::Relaxed) {
                            break;
                        }
                        let case = gen(i);
                        let mut out = CaseOut::default();
                        out.want_sample = local.samples.len() < 1;
                        match exec(&case, &mut out) {
                            Ok(()) => local.merge_case(out, 1),
                            Err(f) => {
                                if self.is_known(&f.signature) {
                                    local.evaluations += 1;
                                    local.excluded_known += 1;
                                    *local.known_seen.entry(f.signature.clone()).or_insert(0) += 1;
                                } else {
                                    stop.store(true, Ordering::Relaxed);
                                    let rf = ReplayFile {
                                        property: self.id.to_string(),
                                        part: name.to_string(),
                                        signature: f.signature,
                                        message: f.message,
                                        case: serde_json::to_value(&case).unwrap(),
                                    };
                                    let path = self.write_replay(&rf);
                                    local.violations.push((rf, path));
                                    break;
                                }
                            }
                        }
                        i += shards;
                    }
                    merged.lock().unwrap().merge(local);
                });
            }
        });
        let m = merged.into_inner().unwrap();
        if exhaustive && m.violations.is_empty() {
            report.exhaustive_parts.push(format!("{} ({} cases, complete)", name, total));
        }
        report.parts.push(json!({
            "part": name, "cases": m.evaluations, "excluded_known": m.excluded_known,
            "violations": m.violations.len(), "wall_s": t0.elapsed().as_secs_f64(),
            "generator": if exhaustive { "bounded enumeration (complete)" } else { "enumeration (strided)" }
        }));
        report.merge(m);
    }
}

/// Executes a stored case through a Part's oracle without proptest.
pub fn replay_with<P: Part>(part: &P, case: &Value) -> Result<(), Fail> {
    let c: P::Case = serde_json::from_value(case.clone())
        .map_err(|e| Fail::new("replay:bad-file", format!("replay case does not deserialize for part {}: {e}", part.name())))?;
    let mut out = CaseOut::default();
    part.exec(&c, &mut out)
}

pub fn read_replay(path: &Path) -> ReplayFile {
    let s = std::fs::read_to_string(path).unwrap_or_else(|e| {
        eprintln!("cannot read replay file {}: {e}", path.display());
        std::process::exit(2)
    });
    serde_json::from_str(&s).unwrap_or_else(|e| {
        eprintln!("replay file {} does not parse: {e}", path.display());
        std::process::exit(2)
    })
}

pub struct EvidenceMeta {
    pub level: &'static str,
    pub rule: String,
    pub assumptions: Vec<String>,
}

pub fn write_evidence(ctx: &Ctx, report: &Report, meta: &EvidenceMeta, violations: usize) {
    let dir = verif_root().join("evidence");
    let _ = std::fs::create_dir_all(&dir);
    let mut coverage = serde_json::Map::new();
    coverage.insert("evaluations".into(), json!(report.evaluations));
    coverage.insert("distinct_nontrivial".into(), json!(report.nontrivial.len()));
    coverage.insert("rule".into(), json!(meta.rule));
    coverage.insert("samples".into(), json!(report.samples));
    coverage.insert("classes".into(), json!(report.classes));
    coverage.insert("sub_evaluations".into(), json!(report.sub_evaluations));
    coverage.insert("excluded_known".into(), json!(report.excluded_known));
    coverage.insert("known_seen".into(), json!(report.known_seen));
    coverage.insert("max_observed".into(), json!(report.maxima));
    coverage.insert("parts".into(), json!(report.parts));
    coverage.insert("exhaustive".into(), json!(false));
    coverage.insert("exhaustive_subspaces".into(), json!(report.exhaustive_parts));
    for (k, v) in &report.extra {
        coverage.insert(k.clone(), v.clone());
    }
    let ev = json!({
        "property_id": ctx.id,
        "tier": ctx.tier.name(),
        "seed": ctx.seed,
        "level": meta.level,
        "coverage": Value::Object(coverage),
        "assumptions": meta.assumptions,
        "wall_s": ctx.started.elapsed().as_secs_f64(),
        "violations": violations,
    });
    let p = dir.join(format!("{}.json", ctx.id));
    std::fs::write(&p, serde_json::to_string_pretty(&ev).unwrap()).unwrap_or_else(|e| {
        eprintln!("cannot write evidence {}: {e}", p.display());
        std::process::exit(2)
    });
}


// ---------------------------------------------------------------------------------------
// libFuzzer campaigns (thorough tiers) and corpus replay (every tier)
// ---------------------------------------------------------------------------------------

#[derive(Serialize, Deserialize, Clone, Debug)]
pub struct FuzzInput {
    pub target: String,
    pub bytes: Vec<u8>,
}

impl Ctx {
    /// Replays every committed corpus file of `target` through the in-process oracle.
    pub fn replay_corpus(&self, target: &'static str, report: &mut Report) {
        let dir = verif_root().join("corpus").join(target);
        let mut n = 0u64;
        let mut files: Vec<_> = std::fs::read_dir(&dir).map(|d| d.filter_map(|e| e.ok()).map(|e| e.path()).collect()).unwrap_or_default();
        files.sort();
        for f in files {
            let Ok(bytes) = std::fs::read(&f) else { continue };
            n += 1;
            if let Some(Err(fail)) = crate::fuzzing::replay(target, &bytes) {
                if self.is_known(&fail.signature) {
                    report.excluded_known += 1;
                    *report.known_seen.entry(fail.signature.clone()).or_insert(0) += 1;
                    continue;
                }
                let rf = ReplayFile {
                    property: self.id.to_string(),
                    part: format!("fuzz:{target}"),
                    signature: fail.signature,
                    message: fail.message,
                    case: serde_json::to_value(FuzzInput { target: target.to_string(), bytes }).unwrap(),
                };
                let path = self.write_replay(&rf);
                report.violations.push((rf, path));
            }
        }
        report.evaluations += n;
        report.parts.push(json!({"part": format!("corpus-replay:{target}"), "cases": n, "generator": "committed seed corpus, replayed in-process"}));
    }

    /// Runs a coverage-guided libFuzzer campaign of `runs` executions and turns saved crashes into replay files.
    pub fn fuzz_campaign(&self, target: &'static str, runs: u64, max_len: u32, report: &mut Report) {
        let work = verif_root().join("target").join("fuzzwork").join(format!("{}-{}-{}", target, self.id, std::process::id()));
        let _ = std::fs::remove_dir_all(&work);
        let _ = std::fs::create_dir_all(&work);
        let script = verif_root().join("harness").join("fuzz").join("run.sh");
        let t0 = std::time::Instant::now();
        let out = std::process::Command::new("bash")
            .arg(&script)
            .args([target, &runs.to_string(), &self.seed.to_string(), &max_len.to_string(), work.to_str().unwrap()])
            .output();
        let out = match out {
            Ok(o) if o.status.code() == Some(0) => o,
            Ok(o) => {
                eprintln!("fuzz campaign {target}: infrastructure failure ({:?})\n{}", o.status, String::from_utf8_lossy(&o.stderr));
                std::process::exit(2)
            }
            Err(e) => {
                eprintln!("fuzz campaign {target}: cannot start: {e}");
                std::process::exit(2)
            }
        };
        let txt = String::from_utf8_lossy(&out.stdout).to_string();
        let mut execs = 0u64;
        let mut crashes = 0u64;
        for line in txt.lines() {
            if let Some(n) = line.strip_prefix("FUZZ-EXECS ") {
                execs = n.trim().parse().unwrap_or(0);
            }
            if let Some(p) = line.strip_prefix("FUZZ-CRASH ") {
                let Ok(bytes) = std::fs::read(p.trim()) else { continue };
                let name = std::path::Path::new(p.trim()).file_name().map(|s| s.to_string_lossy().to_string()).unwrap_or_default();
                // slow-unit / oom / timeout artifacts are inconclusive, not violations
                if !name.starts_with("crash-") {
                    eprintln!("fuzz campaign {target}: libFuzzer saved {name} (inconclusive, not a violation)");
                    continue;
                }
                let fail = match crate::fuzzing::replay(target, &bytes) {
                    Some(Err(f)) => f,
                    _ => Fail::new("fuzz:crash-not-reproduced-in-process", format!("libFuzzer saved {name} ({} bytes) but the in-process oracle passes on it", bytes.len())),
                };
                if self.is_known(&fail.signature) {
                    report.excluded_known += 1;
                    *report.known_seen.entry(fail.signature.clone()).or_insert(0) += 1;
                    continue;
                }
                crashes += 1;
                let rf = ReplayFile {
                    property: self.id.to_string(),
                    part: format!("fuzz:{target}"),
                    signature: fail.signature,
                    message: fail.message,
                    case: serde_json::to_value(FuzzInput { target: target.to_string(), bytes }).unwrap(),
                };
                let path = self.write_replay(&rf);
                report.violations.push((rf, path));
            }
        }
        let _ = std::fs::remove_dir_all(&work);
        report.evaluations += execs;
        report.parts.push(json!({"part": format!("libfuzzer:{target}"), "cases": execs, "crashes": crashes, "wall_s": t0.elapsed().as_secs_f64(),
            "generator": "coverage-guided libFuzzer (cargo-fuzz), semantic oracle inside the target, committed seed corpus, -len_control=0"}));
        report.extra.insert(format!("fuzz_execs_{target}"), json!(execs));
    }
}

/// Replay of a stored fuzz input (part name "fuzz:<target>").
pub fn replay_fuzz(part: &str, case: &Value) -> Option<Result<(), Fail>> {
    let target = part.strip_prefix("fuzz:")?;
    let inp: FuzzInput = match serde_json::from_value(case.clone()) {
        Ok(i) => i,
        Err(e) => return Some(Err(Fail::new("replay:bad-file", e.to_string()))),
    };
    crate::fuzzing::replay(target, &inp.bytes)
}
