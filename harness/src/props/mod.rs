use crate::engine::{Ctx, EvidenceMeta, Fail, Report};
use serde_json::Value;

pub mod c19;

pub struct PropDef {
    pub id: &'static str,
    pub run: fn(&Ctx, &mut Report) -> EvidenceMeta,
    /// replays a stored case of the named part; None if the part is unknown
    pub replay: fn(&str, &Value) -> Option<Result<(), Fail>>,
}

pub fn all() -> Vec<PropDef> {
    vec![PropDef { id: "C19", run: c19::run, replay: c19::replay }]
}
