use crate::engine::{Ctx, EvidenceMeta, Fail, Report};
use serde_json::Value;

pub mod c01;
pub mod c02;
pub mod c03;
pub mod c04;
pub mod c05;
pub mod c06;
pub mod c07;
pub mod c08;
pub mod c09;
pub mod c10;
pub mod c11;
pub mod c12;
pub mod c13;
pub mod c14;
pub mod c15;
pub mod c16;
pub mod c17;
pub mod c18;
pub mod c19;
pub mod c20;

pub struct PropDef {
    pub id: &'static str,
    pub run: fn(&Ctx, &mut Report) -> EvidenceMeta,
    /// replays a stored case of the named part; None if the part is unknown
    pub replay: fn(&str, &Value) -> Option<Result<(), Fail>>,
}

pub fn all() -> Vec<PropDef> {
    vec![
        PropDef { id: "C01", run: c01::run, replay: c01::replay },
        PropDef { id: "C02", run: c02::run, replay: c02::replay },
        PropDef { id: "C03", run: c03::run, replay: c03::replay },
        PropDef { id: "C04", run: c04::run, replay: c04::replay },
        PropDef { id: "C05", run: c05::run, replay: c05::replay },
        PropDef { id: "C06", run: c06::run, replay: c06::replay },
        PropDef { id: "C07", run: c07::run, replay: c07::replay },
        PropDef { id: "C08", run: c08::run, replay: c08::replay },
        PropDef { id: "C09", run: c09::run, replay: c09::replay },
        PropDef { id: "C10", run: c10::run, replay: c10::replay },
        PropDef { id: "C11", run: c11::run, replay: c11::replay },
        PropDef { id: "C12", run: c12::run, replay: c12::replay },
        PropDef { id: "C13", run: c13::run, replay: c13::replay },
        PropDef { id: "C14", run: c14::run, replay: c14::replay },
        PropDef { id: "C15", run: c15::run, replay: c15::replay },
        PropDef { id: "C16", run: c16::run, replay: c16::replay },
        PropDef { id: "C17", run: c17::run, replay: c17::replay },
        PropDef { id: "C18", run: c18::run, replay: c18::replay },
        PropDef { id: "C19", run: c19::run, replay: c19::replay },
        PropDef { id: "C20", run: c20::run, replay: c20::replay },
    ]
}
