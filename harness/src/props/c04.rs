//! C04 — A single lost datagram never gets a live member declared Down.
use crate::cluster::*;
use crate::engine::*;
use crate::ensure;
use crate::ident::*;
use crate::sim::*;
use foca::{OwnedNotification as N, State};
use proptest::prelude::*;
use serde::{Deserialize, Serialize};
use serde_json::{json, Value};

#[derive(Clone, Debug, Serialize, Deserialize)]
pub struct C04Case {
    pub spec: ClusterSpec,
    /// drop points: datagram offsets k0, k0+stride, ... inside the window are all executed
    pub k0: u32,
    pub stride: u32,
}

fn no_trouble(sim: &Sim, info: &StepInfo) -> Result<(), Fail> {
    panic_or_err(sim, info, "C04", true)
}

fn formed(spec: &ClusterSpec) -> Result<Option<(Sim, u64)>, Fail> {
    let period = spec.period_us();
    let (mut sim, t_done) = form(spec, no_trouble)?;
    let limit = t_done + (6 * spec.n as u64 + 20) * period;
    let mut t = t_done + period;
    loop {
        sim.run_until(t, no_trouble)?;
        if sim.fully_converged(true) {
            return Ok(Some((sim, t)));
        }
        if t > limit {
            return Ok(None);
        }
        t += period;
    }
}

struct Outcome {
    dropped_kind: &'static str,
    visible: bool,
    suspected: bool,
    indirect: bool,
    recovery_us: u64,
}

fn run_drop(spec: &ClusterSpec, k: u64) -> Result<Option<Outcome>, Fail> {
    let n = spec.n as u64;
    let period = spec.period_us();
    let Some((mut sim, _)) = formed(spec)? else { return Ok(None) };
    let ids: Vec<Id> = (0..spec.n as usize).map(|i| sim.identity(i)).collect();
    sim.drop_index = Some(sim.sent_count + k);
    let pingreq_before = sim.kind_counts.get("PingReq").copied().unwrap_or(0);
    // run until the datagram is actually dropped
    let guard = sim.now + (n + 4) * period;
    while sim.dropped.is_none() {
        match sim.step() {
            Some(info) => no_trouble(&sim, &info)?,
            None => break,
        }
        if sim.now > guard {
            break;
        }
    }
    let Some((t_drop, from, to_addr, kind)) = sim.dropped else { return Ok(None) };
    let deadline = t_drop + (2 * n + 2) * period + spec.cfg.suspect_to_down_ms as u64 * MS;
    let mut suspected = false;
    let mut recovered_at: Option<u64> = None;
    let mut last_trouble = t_drop;
    let res: Result<(), Fail> = sim.run_until(deadline, |sim, info| {
        no_trouble(sim, info)?;
        for x in &info.notes {
            ensure!(
                !matches!(x, N::MemberDown(_) | N::Defunct | N::Rejoin(_) | N::Idle),
                if matches!(x, N::MemberDown(_) | N::Idle) { "C04:live-member-declared-down" } else { "C04:live-member-told-it-is-down" },
                "after losing one {} (node{} -> addr {}, t={}us) node{} notified {:?} at t={}us\n{}",
                kind,
                from,
                to_addr,
                t_drop,
                info.node,
                x,
                info.t,
                sim.describe()
            );
        }
        let st = sim.nodes[info.node].inst.foca.iter_membership_state().any(|m| m.state() != State::Alive);
        if st {
            suspected = true;
            last_trouble = info.t;
        }
        Ok(())
    });
    res?;
    // at the deadline everybody lists everybody as Alive under the original identity
    for i in 0..spec.n as usize {
        ensure!(sim.identity(i) == ids[i], "C04:identity-changed", "node{} changed identity from {} to {}", i, ids[i], sim.identity(i));
    }
    ensure!(
        sim.fully_converged(true),
        "C04:not-recovered",
        "{} probe periods + suspect_to_down_after after losing one {} (node{} -> addr {}) some instance does not list every other as Alive\n{}",
        2 * n + 2,
        kind,
        from,
        to_addr,
        sim.describe()
    );
    let _ = &mut recovered_at;
    let indirect = sim.kind_counts.get("PingReq").copied().unwrap_or(0) > pingreq_before;
    Ok(Some(Outcome { dropped_kind: kind, visible: suspected || indirect, suspected, indirect, recovery_us: last_trouble - t_drop }))
}

pub fn exec(c: &C04Case, out: &mut CaseOut) -> Result<(), Fail> {
    let spec = &c.spec;
    let Some((mut probe, t0)) = formed(spec)? else {
        out.class("discarded_cluster_did_not_form");
        return Ok(());
    };
    let base = probe.sent_count;
    probe.run_until(t0 + (spec.n as u64 + 2) * spec.period_us(), no_trouble)?;
    let window = (probe.sent_count - base).max(1);
    drop(probe);
    let stride = c.stride.max(1) as u64;
    let mut k = c.k0 as u64 % stride;
    let mut points = 0u64;
    while k < window {
        if let Some(o) = run_drop(spec, k)? {
            points += 1;
            out.sub_evaluations += 1;
            out.class(match o.dropped_kind {
                "Ping" => "dropped_Ping",
                "Ack" => "dropped_Ack",
                "Gossip" => "dropped_Gossip",
                "Announce" => "dropped_Announce",
                "Feed" => "dropped_Feed",
                "PingReq" => "dropped_PingReq",
                "IndirectPing" => "dropped_IndirectPing",
                "IndirectAck" => "dropped_IndirectAck",
                "ForwardedAck" => "dropped_ForwardedAck",
                _ => "dropped_other",
            });
            if o.suspected {
                out.class("loss_caused_suspicion");
            }
            if o.indirect {
                out.class("loss_absorbed_by_indirect_probe");
            }
            out.max("recovery_ms_after_drop", o.recovery_us / 1000);
            if o.visible {
                out.nontrivial((spec.n, o.dropped_kind, o.suspected, o.indirect, spec.cfg.notify_down, spec.renew, k % 8));
            }
        }
        k += stride;
    }
    out.class_n("drop_points", points);
    if out.want_sample {
        out.sample = Some(json!({"spec": spec, "window_datagrams": window, "stride": stride, "drop_points": points}));
    }
    Ok(())
}

pub struct DropPart;
impl Part for DropPart {
    type Case = C04Case;
    fn name(&self) -> &'static str {
        "drop-each-datagram"
    }
    fn strategy(&self, tier: Tier) -> BoxedStrategy<C04Case> {
        let mut p = ClusterProfile::default();
        p.n = (2, 8);
        p.max_tx = (2, 10);
        p.join_formation = 1;
        p.inject_formation = 3;
        p.suspect_periods = (3, 6);
        // one lost datagram costs a member at most one refutation, so starting at MAX-1 is still refutable
        p.inc_cap = u16::MAX - 1;
        let stride = tier.pick(6u32, 1u32);
        (cluster_spec(&p), 0..64u32)
            .prop_map(move |(mut spec, k0)| {
                if matches!(spec.formation, Formation::Join { .. }) && spec.cfg.periodic_announce.is_none() {
                    spec.cfg.periodic_announce = Some(crate::inst::Periodic { every_ms: 2000, num: 1 });
                }
                // "otherwise fault-free": the transport is fast enough for the configured timing, i.e. an
                // indirect probe round (4 hops after probe_rtt) completes before the next probe period starts
                let slack_us = (spec.cfg.probe_period_ms - spec.cfg.probe_rtt_ms) as u64 * 1000 / 5;
                spec.lat_max_us = (spec.lat_max_us as u64).min(slack_us.max(1)) as u32;
                C04Case { spec, k0, stride }
            })
            .boxed()
    }
    fn cases(&self, tier: Tier) -> u64 {
        tier.pick(6_000, 8_000)
    }
    fn exec(&self, c: &C04Case, out: &mut CaseOut) -> Result<(), Fail> {
        exec(c, out)
    }
    fn max_shrink_iters(&self) -> u32 {
        400
    }
}

pub fn run(ctx: &Ctx, report: &mut Report) -> EvidenceMeta {
    ctx.run_part(&DropPart, report);
    EvidenceMeta {
        level: "fault_enumeration",
        rule: "simulated formed clusters (n 2..=8, notify_down_members on/off, renewable and non-renewable identities, suspect_to_down_after 3..6 probe periods, generated latencies, seeds, fan-out, periodic tasks, starting incarnations 0..Incarnation::MAX-1 so that the one refutation a lost datagram can cost is still possible) in which exactly the k-th datagram after formation is lost; for every base run k is enumerated over a window of n+2 probe periods of traffic (every datagram in the thorough tier, every 6th with a random phase in the quick tier). evaluations = base runs, sub_evaluations = drop points executed; the histogram of dropped message kinds is reported. Oracle: from the drop until (2n+2) probe periods + suspect_to_down_after later no MemberDown, Idle, Defunct or Rejoin anywhere, no identity change, and at that deadline every instance lists every other as Alive. Non-trivial: the loss was visible (a Suspect record or an indirect probe round followed); distinct = (n, dropped kind, suspicion, indirect, notify_down, renewable, phase)."
            .into(),
        assumptions: vec![
            "apart from the one lost datagram the transport and timers are fault-free: per-message latency < min(probe_rtt/4, (probe_period - probe_rtt)/5), so that a direct probe completes within probe_rtt and an indirect round before the next probe period (the timing the configuration documents: 'probe_period ... we need to wait for the indirect ping cycle')".into(),
        ],
    }
}

pub fn replay(part_name: &str, case: &Value) -> Option<Result<(), Fail>> {
    match part_name {
        "drop-each-datagram" => Some(replay_with(&DropPart, case)),
        _ => None,
    }
}
