//! C17 — Deterministic, and rejected input leaves no trace.
use crate::codec::CodecKind;
use crate::engine::*;
use crate::ensure;
use crate::ident::*;
use crate::inst::*;
use crate::model::{self, Reject};
use crate::ops::*;
use crate::rt::timer_token;
use proptest::prelude::*;
use serde::{Deserialize, Serialize};
use serde_json::Value;

#[derive(Clone, Debug, Serialize, Deserialize)]
pub struct TwinCase {
    pub setup: Setup,
    pub ops: Vec<Op>,
    /// (position raw index, candidate rejected inputs)
    pub inserts: Vec<(u16, Vec<Op>)>,
}

/// Structural pre-classification of a candidate insertion: Some(class) if the statement says it
/// must leave no trace, None if it is (or may be) a legitimate state-changing call.
fn reject_class(r: &Runner, call: &Call, stale_by_epoch: bool) -> Option<&'static str> {
    let view = r.inst.view();
    match call {
        Call::Data(b) => {
            let c = model::classify(&view, r.inst.cfg.max_packet as usize, r.inst.codec, b);
            match c.reject {
                Some(Reject::TooBig) => Some("oversized"),
                Some(Reject::HeaderUndecodable) => Some("header-undecodable"),
                Some(Reject::FromOurselves) => Some("from-own-identity-or-address"),
                Some(Reject::StrayByte) => Some("stray-byte-after-header"),
                Some(Reject::AnnounceWithData) => Some("announce-with-data"),
                Some(Reject::NotForUs) => Some("not-addressed-to-us"),
                Some(Reject::MembersUndecodable) => Some("member-list-undecodable"),
                None => None,
            }
        }
        // a timer is stale when the instance's epoch changed (Idle / Defunct / Rejoin notified, identity
        // changed or reused) after the call that issued it - judged from the notifications, not from the
        // instance's own token, which is what a defect would get wrong - or when it carries a foreign token
        Call::Timer(t) => match timer_token(t) {
            Some(k) if k != view.snap.timer_token || stale_by_epoch => Some("stale-epoch-timer"),
            _ => None,
        },
        Call::ReuseDown => {
            if view.conn() != 2 {
                Some("reuse-when-not-defunct")
            } else {
                None
            }
        }
        Call::ChangeIdentity(x) => {
            if *x == view.identity {
                Some("change-to-same-identity")
            } else {
                None
            }
        }
        Call::SetConfig(c) => {
            let old = &r.inst.cfg;
            let bad = c.probe_period_ms != old.probe_period_ms
                || c.probe_rtt_ms != old.probe_rtt_ms
                || (old.periodic_announce.is_none() && c.periodic_announce.is_some())
                || (old.periodic_announce_down.is_none() && c.periodic_announce_down.is_some())
                || (old.periodic_gossip.is_none() && c.periodic_gossip.is_some());
            if bad {
                Some("invalid-config")
            } else {
                None
            }
        }
        Call::AddBroadcast(b) => {
            if b.is_empty() {
                Some("empty-broadcast")
            } else if b.len() > r.inst.cfg.max_packet as usize {
                Some("oversized-broadcast")
            } else if b.len() > u16::MAX as usize {
                // fits the packet limit but not the 16-bit length prefix of the wire format: DataTooBig
                Some("broadcast-exceeds-length-prefix")
            } else {
                None
            }
        }
        _ => None,
    }
}

fn same_effects(a: &CallRec, b: &CallRec) -> Option<String> {
    if a.call != b.call {
        return Some(format!("the call itself resolved differently: {:?} vs {:?}", a.call, b.call));
    }
    if a.res != b.res {
        return Some(format!("results differ: {:?} vs {:?}", a.res, b.res));
    }
    if a.evs != b.evs {
        return Some(format!("effects differ:\n   {:?}\n   {:?}", a.evs, b.evs));
    }
    if a.handler_calls != b.handler_calls {
        return Some("handler calls differ".into());
    }
    if a.hook != b.hook {
        return Some(format!("internal event logs differ: {:?} vs {:?}", a.hook, b.hook));
    }
    if a.after != b.after {
        return Some(format!("observable state after the call differs:\n   {:?}\n   {:?}", a.after, b.after));
    }
    None
}

pub struct TwinPart;

fn insert_op(p: &Profile) -> BoxedStrategy<Op> {
    let bad_mangle = prop_oneof![
        3 => any::<u16>().prop_map(Mangle::Truncate),
        2 => any::<u8>().prop_map(Mangle::TrailingByte),
        2 => (any::<u16>(), any::<u8>()).prop_map(|(a, b)| Mangle::Flip(a, b)),
        2 => prop_oneof![Just(200u16), Just(u16::MAX), any::<u16>()].prop_map(Mangle::Count),
        2 => (0..4u8).prop_map(Mangle::Oversize),
        1 => (1..9u8, any::<u8>()).prop_map(|(a, b)| Mangle::Append(a, b)),
    ];
    let mangled = (data_spec(p), bad_mangle).prop_map(|(mut d, m)| {
        d.mangle = m;
        Op::Data(d)
    });
    let from_self = (data_spec(p), 0..p.n_gen + 1, any::<bool>()).prop_map(|(mut d, g, own)| {
        d.src = if own { IdSel::Own } else { IdSel::OwnAddr(g) };
        Op::Data(d)
    });
    let wrong_dst = (data_spec(p), 0..p.n_addr, 0..p.n_gen + 1, any::<bool>()).prop_map(|(mut d, a, g, same_addr)| {
        d.dst = if same_addr { DstSel::MeGen(g) } else { DstSel::Abs(a, g) };
        Op::Data(d)
    });
    let announce_data = (data_spec(p), 1..9u8, any::<u8>()).prop_map(|(mut d, n, b)| {
        d.msg = MsgSel::Announce;
        d.members = None;
        d.items = vec![];
        d.mangle = Mangle::Append(n, b);
        Op::Data(d)
    });
    prop_oneof![
        8 => mangled,
        3 => from_self,
        3 => wrong_dst,
        2 => announce_data,
        3 => proptest::collection::vec(any::<u8>(), 0..30).prop_map(Op::Raw),
        4 => any::<u16>().prop_map(Op::FireOld),
        1 => Just(Op::ReuseDown),
        1 => Just(Op::ChangeIdentity(IdSel::Own, RENEW_NONE)),
        2 => prop_oneof![
            (1..1000u32).prop_map(CfgDelta::ProbePeriod),
            (1..1000u32).prop_map(CfgDelta::ProbeRtt),
            Just(CfgDelta::EnableAnnounce),
            Just(CfgDelta::EnableAnnounceDown),
            Just(CfgDelta::EnableGossip)
        ]
        .prop_map(Op::SetConfig),
        1 => Just(Op::AddBroadcastRaw(vec![])),
        1 => (1400..1500usize).prop_map(|n| Op::AddBroadcastRaw(vec![7u8; n])),
    ]
    .boxed()
}

fn profile() -> (SetupProfile, Profile) {
    let mut p = Profile::default();
    p.old_timers = true;
    p.max_len = 90;
    let mut sp = SetupProfile::default();
    sp.codecs = vec![CodecKind::Fix, CodecKind::Var, CodecKind::Postcard];
    sp.packet = vec![(1400, 1401), (60, 200)];
    (sp, p)
}

pub fn exec_twin(case: &TwinCase, out: &mut CaseOut) -> Result<(), Fail> {
    let codec = case.setup.codec;
    let mut a = Runner::new(&case.setup);
    let mut a2 = Runner::new(&case.setup);
    let mut b = Runner::new(&case.setup);
    let n = case.ops.len();
    let mut classes: std::collections::BTreeSet<&'static str> = Default::default();
    let mut inserted = 0u64;
    let mut skipped = 0u64;
    let mut mid_probe = false;
    let mut pending_updates = false;
    let mut tail: std::collections::VecDeque<String> = Default::default();
    let mut conn_b = crate::hist::ConnTracker::default();
    let mut epoch_after_call: std::collections::BTreeMap<usize, u64> = Default::default();
    for (i, op) in case.ops.iter().enumerate() {
        for (pos, cands) in &case.inserts {
            if ((*pos as usize) * n) >> 16 != i {
                continue;
            }
            for cand in cands {
                // only non-destructive resolutions are used for insertions
                if matches!(cand, Op::Fire(_) | Op::FireNext) {
                    continue;
                }
                let Some((call, origin)) = b.concretize(cand) else { continue };
                let stale_by_epoch = match &origin {
                    Origin::Old(p) | Origin::Issued(p) => epoch_after_call.get(&p.issued_in).map(|e| *e != conn_b.epoch).unwrap_or(false),
                    _ => false,
                };
                let Some(class) = reject_class(&b, &call, stale_by_epoch) else {
                    skipped += 1;
                    continue;
                };
                let view = b.inst.view();
                if view.snap.probe_target.is_some() {
                    mid_probe = true;
                }
                if view.updates_backlog > 0 {
                    pending_updates = true;
                }
                let rec = b.inst.call(call);
                tail.push_back(format!("  (inserted, {class}) {}", rec.render(codec)));
                if tail.len() > 10 {
                    tail.pop_front();
                }
                if let Res::Panic(m) = &rec.res {
                    return Err(Fail::new("panic", format!("Foca panicked on a rejected input: {m}")));
                }
                let sig = format!("C17:trace:{class}");
                ensure!(
                    rec.evs.is_empty() && rec.handler_calls.is_empty(),
                    sig,
                    "rejected input ({class}) produced effects: {}\n{}",
                    rec.render(codec),
                    tail.iter().cloned().collect::<Vec<_>>().join("\n")
                );
                ensure!(
                    rec.before == rec.after && rec.hook.is_empty(),
                    sig,
                    "rejected input ({class}) changed observable state: {}\n before {:?}\n after  {:?}",
                    rec.render(codec),
                    rec.before,
                    rec.after
                );
                inserted += 1;
                classes.insert(class);
            }
        }
        let ra = a.step(op);
        let ra2 = a2.step(op);
        let rb = b.step(op);
        if let Some((rec, _)) = &rb {
            conn_b.absorb(rec);
            epoch_after_call.insert(b.ncalls - 1, conn_b.epoch);
        }
        match (&ra, &ra2, &rb) {
            (None, None, None) => continue,
            (Some((x, _)), Some((x2, _)), Some((y, _))) => {
                tail.push_back(format!("  #{i} {}", x.render(codec)));
                if tail.len() > 10 {
                    tail.pop_front();
                }
                if let Res::Panic(m) = &x.res {
                    return Err(Fail::new("panic", format!("Foca panicked: {m}")));
                }
                if let Some(d) = same_effects(x, x2) {
                    return Err(Fail::new(
                        "C17:nondeterministic",
                        format!("the same history run twice from the same seed diverges at call #{i}: {d}\n{}", tail.iter().cloned().collect::<Vec<_>>().join("\n")),
                    ));
                }
                if let Some(d) = same_effects(x, y) {
                    return Err(Fail::new(
                        "C17:rejected-input-altered-history",
                        format!(
                            "after inserting rejected inputs (classes {:?}) the rest of the history differs at call #{i}: {d}\n{}",
                            classes,
                            tail.iter().cloned().collect::<Vec<_>>().join("\n")
                        ),
                    ));
                }
            }
            _ => {
                return Err(Fail::new(
                    "C17:rejected-input-altered-history",
                    format!("op #{i} is applicable in one twin and not in the other (timer pools differ) after inserting {:?}", classes),
                ))
            }
        }
    }
    out.sub_evaluations += inserted;
    out.class_n("insertions_executed", inserted);
    out.class_n("candidates_skipped_because_acceptable", skipped);
    for c in &classes {
        out.class(match *c {
            "oversized" => "ins_oversized",
            "header-undecodable" => "ins_header_undecodable",
            "from-own-identity-or-address" => "ins_from_own_identity_or_address",
            "stray-byte-after-header" => "ins_stray_byte",
            "announce-with-data" => "ins_announce_with_data",
            "not-addressed-to-us" => "ins_not_addressed_to_us",
            "member-list-undecodable" => "ins_member_list_undecodable",
            "stale-epoch-timer" => "ins_stale_epoch_timer",
            "reuse-when-not-defunct" => "ins_reuse_when_not_defunct",
            "change-to-same-identity" => "ins_same_identity",
            "invalid-config" => "ins_invalid_config",
            "empty-broadcast" => "ins_empty_broadcast",
            "broadcast-exceeds-length-prefix" => "ins_broadcast_exceeds_length_prefix",
            _ => "ins_oversized_broadcast",
        });
    }
    if (classes.len() >= 3 && mid_probe && pending_updates) || classes.contains("broadcast-exceeds-length-prefix") {
        out.class("nontrivial_twins");
        out.nontrivial((classes.iter().collect::<Vec<_>>(), codec));
    }
    if out.want_sample {
        out.sample = Some(serde_json::json!({"setup": case.setup, "base_calls": n, "insertion_classes": classes, "tail": tail}));
    }
    Ok(())
}

/// Packet limits above 64 KiB: an item may respect max_packet_size and still be rejected (DataTooBig)
/// because its length does not fit the wire format's 16-bit prefix; the handler must not have seen it.
pub struct TwinHugePart;
impl Part for TwinHugePart {
    type Case = TwinCase;
    fn name(&self) -> &'static str {
        "twin-histories-packet-limit-above-64k"
    }
    fn strategy(&self, _t: Tier) -> BoxedStrategy<TwinCase> {
        let mut p = Profile::default();
        p.max_len = 40;
        p.api_sends = 30;
        let mut sp = SetupProfile::default();
        sp.codecs = vec![CodecKind::Fix, CodecKind::Var, CodecKind::Postcard];
        sp.packet = vec![(65_600, 70_000), (100_000, 131_073)];
        let big = (65_536..131_073u32, 0..4u8, 0..8u8).prop_map(|(len, key, version)| Op::AddBroadcastBig { len, key, version });
        let ins_op = prop_oneof![4 => big, 1 => insert_op(&p)];
        let ins = proptest::collection::vec((any::<u16>(), proptest::collection::vec(ins_op, 1..3)), 1..6);
        let base = prop_oneof![3 => op(&p), 2 => item_spec().prop_map(Op::AddBroadcast), 1 => Just(Op::Gossip), 1 => Just(Op::Broadcast)];
        (setup(&sp), proptest::collection::vec(base, 1..p.max_len), ins)
            .prop_map(|(mut setup, ops, inserts)| {
                if !setup.handler.enabled {
                    setup.handler = crate::handler::HandlerSpec::SIMPLE;
                }
                TwinCase { setup, ops, inserts }
            })
            .boxed()
    }
    fn cases(&self, tier: Tier) -> u64 {
        tier.pick(9_000, 100_000)
    }
    fn exec(&self, case: &TwinCase, out: &mut CaseOut) -> Result<(), Fail> {
        exec_twin(case, out)
    }
}

/// Long-lived instances: 250..260 identity changes come first, so that the 8-bit timer token is at its
/// wrap when the generated history (with its own Idle / Active flapping) and the stale timers follow.
pub struct TwinManyEpochsPart;
impl Part for TwinManyEpochsPart {
    type Case = TwinCase;
    fn name(&self) -> &'static str {
        "twin-histories-after-250-epoch-changes"
    }
    fn strategy(&self, _t: Tier) -> BoxedStrategy<TwinCase> {
        let (sp, mut p) = profile();
        p.max_len = 70;
        p.timers_weight = 40;
        let ins_op = prop_oneof![5 => any::<u16>().prop_map(Op::FireOld), 1 => insert_op(&p)];
        let ins = proptest::collection::vec((any::<u16>(), proptest::collection::vec(ins_op, 1..4)), 2..10);
        (setup(&sp), 250..260usize, proptest::collection::vec(op(&p), 5..p.max_len), ins)
            .prop_map(|(setup, k, ops, inserts)| {
                let mut all: Vec<Op> = (0..k).map(|i| Op::ChangeIdentity(IdSel::OwnAddr(5 + (i % 2) as u8), RENEW_NONE)).collect();
                // insertion points are positions in the whole history: keep them behind the prefix
                let n = k + ops.len();
                all.extend(ops);
                let inserts = inserts.into_iter().map(|(pos, c)| ((((k + ((pos as usize) * (n - k) >> 16)) << 16) / n + 1).min(65535) as u16, c)).collect();
                TwinCase { setup, ops: all, inserts }
            })
            .boxed()
    }
    fn cases(&self, tier: Tier) -> u64 {
        tier.pick(7_500, 100_000)
    }
    fn exec(&self, case: &TwinCase, out: &mut CaseOut) -> Result<(), Fail> {
        exec_twin(case, out)
    }
    fn max_shrink_iters(&self) -> u32 {
        300
    }
}

impl Part for TwinPart {
    type Case = TwinCase;
    fn name(&self) -> &'static str {
        "twin-histories"
    }
    fn strategy(&self, _t: Tier) -> BoxedStrategy<TwinCase> {
        let (sp, p) = profile();
        let ins = proptest::collection::vec((any::<u16>(), proptest::collection::vec(insert_op(&p), 1..4)), 1..8);
        (setup(&sp), proptest::collection::vec(op(&p), 1..p.max_len), ins)
            .prop_map(|(setup, ops, inserts)| TwinCase { setup, ops, inserts })
            .boxed()
    }
    fn cases(&self, tier: Tier) -> u64 {
        tier.pick(120_000, 1_000_000)
    }
    fn exec(&self, case: &TwinCase, out: &mut CaseOut) -> Result<(), Fail> {
        exec_twin(case, out)
    }
}

pub fn run(ctx: &Ctx, report: &mut Report) -> EvidenceMeta {
    ctx.replay_corpus("wire_bytes", report);
    ctx.run_part(&TwinPart, report);
    ctx.run_part(&TwinHugePart, report);
    ctx.run_part(&TwinManyEpochsPart, report);
    if ctx.tier == Tier::Thorough {
        ctx.fuzz_campaign("wire_bytes", 20_000_000, 300, report);
    }
    EvidenceMeta {
        level: "exploration",
        rule: "proptest twin runs: a random base history (datagrams of every kind, timers, API calls, custom broadcasts; FixCodec/VarCodec/PostcardCodec; packet sizes 60..200 and 1400) is executed three times from the same seed: twice as is (determinism) and once with 1..7 insertion points each carrying 1..3 candidate rejected inputs. A candidate is inserted only if the harness's own structural classifier (not Foca) puts it in a class the statement names (oversized, header undecodable, member list undecodable, from own identity/address, stray byte after header, Announce with data, not addressed to the instance, stale-epoch timer from the instance's own past (stale = an Idle / Defunct / Rejoin notification or an identity change / reuse happened after the call that issued it; a third part puts 250..260 identity changes in front of the history so that the 8-bit token wraps), reuse_down_identity when not Defunct, change_identity(current), invalid config, empty/oversized add_broadcast, and - in a second part with packet limits of 65600..131072 bytes and a stateful handler - add_broadcast of an item that respects the limit but not the 16-bit length prefix); otherwise it is counted as skipped. Oracle: each inserted call emits nothing and leaves every getter and the hook snapshot unchanged, and every base call has identical concrete arguments, result, sends, timers, notifications, handler calls and after-state in all three runs. Non-trivial: >= 3 different rejection classes inserted, at least one while a probe round is open and one while updates are pending, or an item beyond the length prefix inserted; distinct = (set of classes, codec)."
            .into(),
        assumptions: vec![
            "datagrams whose header and member list are valid but whose custom-broadcast tail is malformed are processed before the error is returned; they are not in the statement's list and are never inserted".into(),
        ],
    }
}

pub fn replay(part_name: &str, case: &Value) -> Option<Result<(), Fail>> {
    match part_name {
        p if p.starts_with("fuzz:") => replay_fuzz(p, case),
        "twin-histories" => Some(replay_with(&TwinPart, case)),
        "twin-histories-packet-limit-above-64k" => Some(replay_with(&TwinHugePart, case)),
        "twin-histories-after-250-epoch-changes" => Some(replay_with(&TwinManyEpochsPart, case)),
        _ => None,
    }
}
