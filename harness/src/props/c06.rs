//! C06 — Foca never panics on any input, schedule or configuration.
use crate::codec::CodecKind;
use crate::engine::*;
use crate::handler::HandlerSpec;
use crate::ident::*;
use crate::inst::*;
use crate::ops::*;
use crate::rt::Ev;
use foca::{Config, Member, State};
use proptest::prelude::*;
use serde::{Deserialize, Serialize};
use serde_json::{json, Value};
use std::collections::BTreeSet;
use std::num::NonZeroU32;

pub fn regime() -> &'static str {
    if cfg!(debug_assertions) {
        "debug-assertions+overflow-checks"
    } else {
        "release"
    }
}

#[derive(Clone, Debug, Serialize, Deserialize)]
pub enum MultiOp {
    A(Op),
    B(Op),
    /// deliver the k-th buffered datagram to the instance owning its destination address
    Deliver(u16),
    /// same, but keep it buffered (duplicate delivery)
    DeliverDup(u16),
    /// add_broadcast of `len` bytes on instance A (sizes around the u16 boundary)
    BigBroadcast(u32),
}

#[derive(Clone, Debug, Serialize, Deserialize)]
pub struct MultiCase {
    pub a: Setup,
    pub b: Setup,
    pub ops: Vec<MultiOp>,
}

pub struct OpsPart;

fn c06_profile() -> Profile {
    let mut p = Profile::default();
    p.crafted_timers = true;
    p.old_timers = true;
    p.raw_data = true;
    p.mangle = true;
    p.set_config = true;
    p.illegal_config = true;
    p.packet_resize = true;
    p.change_addr = true;
    p.weird_renew = true;
    p.max_len = 200;
    p
}

fn c06_setup() -> BoxedStrategy<Setup> {
    let mut sp = SetupProfile::default();
    sp.codecs = vec![CodecKind::Fix, CodecKind::Var, CodecKind::Postcard, CodecKind::Bincode];
    sp.packet = vec![(1, 64), (64, 2000), (1400, 1401), (60_000, 70_001)];
    sp.max_tx = (1, 255);
    sp.weird_renew = true;
    setup(&sp)
}

impl Part for OpsPart {
    type Case = MultiCase;
    fn name(&self) -> &'static str {
        "api-sequences"
    }
    fn strategy(&self, _t: Tier) -> BoxedStrategy<MultiCase> {
        let p = c06_profile();
        let mop = prop_oneof![
            10 => op(&p).prop_map(MultiOp::A),
            4 => op(&p).prop_map(MultiOp::B),
            5 => any::<u16>().prop_map(MultiOp::Deliver),
            1 => any::<u16>().prop_map(MultiOp::DeliverDup),
            1 => prop_oneof![65_530..65_545u32, 1..2000u32].prop_map(MultiOp::BigBroadcast),
        ];
        (c06_setup(), c06_setup(), proptest::collection::vec(mop, 1..p.max_len)).prop_map(|(a, b, ops)| MultiCase { a, b, ops }).boxed()
    }
    fn cases(&self, tier: Tier) -> u64 {
        tier.pick(60_000, 1_500_000)
    }
    fn exec(&self, case: &MultiCase, out: &mut CaseOut) -> Result<(), Fail> {
        exec_multi(case, out)
    }
}

pub fn exec_multi(case: &MultiCase, out: &mut CaseOut) -> Result<(), Fail> {
    let mut ra = Runner::with_addr(&case.a, 0);
    let mut rb = Runner::with_addr(&case.b, 1);
    let mut net: Vec<(Id, Vec<u8>)> = Vec::new();
    let mut pairs: BTreeSet<(&'static str, u8)> = BTreeSet::new();
    let mut kinds: BTreeSet<&'static str> = BTreeSet::new();
    let mut errs: BTreeSet<ErrKind> = BTreeSet::new();
    let mut reconfigured = false;
    let mut change_after_reconfig = false;
    let mut crafted_current = false;
    let mut log: std::collections::VecDeque<String> = Default::default();
    let mut calls = 0u64;
    for mop in &case.ops {
        let (which, rec): (&str, Option<(CallRec, Origin)>) = match mop {
            MultiOp::A(op) => ("A", ra.step(op)),
            MultiOp::B(op) => ("B", rb.step(op)),
            MultiOp::BigBroadcast(n) => {
                let data: Vec<u8> = (0..*n).map(|i| (i % 251) as u8 + 1).collect();
                if ra.inst.poisoned {
                    ("A", None)
                } else {
                    let rec = ra.inst.call(Call::AddBroadcast(data));
                    ra.absorb(&rec, &Origin::NotTimer);
                    ("A", Some((rec, Origin::NotTimer)))
                }
            }
            MultiOp::Deliver(k) | MultiOp::DeliverDup(k) => {
                if net.is_empty() {
                    continue;
                }
                let i = ((*k as usize) * net.len()) >> 16;
                let (to, bytes) = if matches!(mop, MultiOp::Deliver(_)) { net.remove(i) } else { net[i].clone() };
                let (w, r) = if to.addr == ra.own().addr { ("A", &mut ra) } else { ("B", &mut rb) };
                if r.inst.poisoned {
                    continue;
                }
                let rec = r.inst.call(Call::Data(bytes));
                r.absorb(&rec, &Origin::NotTimer);
                (w, Some((rec, Origin::NotTimer)))
            }
        };
        let Some((rec, origin)) = rec else { continue };
        calls += 1;
        let codec = if which == "A" { case.a.codec } else { case.b.codec };
        // keep the log cheap: only call kind + result (rendering huge datagrams would dominate the run time)
        let payload = match &rec.call {
            Call::Data(b) | Call::AddBroadcast(b) => b.len(),
            Call::ApplyMany(ms, _) => ms.len() * 8,
            _ => 0,
        };
        let shown = if payload > 120 { format!("{}(<{} bytes>)", rec.call.kind(), payload) } else { rec.call.render(codec) };
        log.push_back(format!("{which}: {} => {:?}", shown, rec.res));
        if log.len() > 14 {
            log.pop_front();
        }
        if let Res::Panic(msg) = &rec.res {
            let site = msg.split(':').take(3).collect::<Vec<_>>().join(":");
            return Err(Fail::new(
                format!("C06:panic:{}", panic_signature(msg)),
                format!("Foca panicked ({}) in {} [{}]\n message: {}\n instance {} config {:?}\n last calls:\n  {}", regime(), rec.call.kind(), site, msg, which, if which == "A" { &ra.inst.cfg } else { &rb.inst.cfg }, log.iter().cloned().collect::<Vec<_>>().join("\n  ")),
            ));
        }
        let rk = match &rec.res {
            Res::Ok | Res::OkBool(_) => 0u8,
            Res::Err(k, _) => {
                errs.insert(*k);
                1 + *k as u8
            }
            Res::Panic(_) => 255,
        };
        pairs.insert((rec.call.kind(), rk));
        if matches!(rec.call, Call::SetConfig(_)) && rec.res.is_ok() {
            reconfigured = true;
        } else if reconfigured && (rec.before.state != rec.after.state || !rec.evs.is_empty()) {
            change_after_reconfig = true;
        }
        if let (Origin::Crafted, Call::Timer(t)) = (&origin, &rec.call) {
            if crate::rt::timer_token(t) == Some(rec.before.snap.timer_token) {
                crafted_current = true;
            }
        }
        for e in &rec.evs {
            if let Ev::Send { to, bytes } = e {
                if let Ok(d) = crate::wire::parse(bytes, codec) {
                    kinds.insert(crate::wire::kind_name(&d.header.message));
                }
                if (to.addr == 0 || to.addr == 1) && net.len() < 64 {
                    net.push((*to, bytes.clone()));
                }
            }
        }
    }
    out.sub_evaluations += calls;
    let nt = errs.len() >= 3 || change_after_reconfig || crafted_current;
    if errs.len() >= 3 {
        out.class("three_or_more_error_variants");
    }
    if change_after_reconfig {
        out.class("state_change_after_reconfiguration");
    }
    if crafted_current {
        out.class("crafted_timer_with_current_token");
    }
    if nt {
        out.nontrivial((pairs, kinds));
    }
    if out.want_sample {
        out.sample = Some(json!({"a": case.a, "b": case.b, "last_calls": log}));
    }
    Ok(())
}

/// Root-cause key of a panic: source location (file:line) when present.
pub fn panic_signature(msg: &str) -> String {
    // "panicked at src/lib.rs:1447:9:\nmessage"
    if let Some(rest) = msg.strip_prefix("panicked at ") {
        let loc = rest.split(|c| c == '\n' || c == ' ').next().unwrap_or("");
        let mut parts = loc.split(':');
        let file = parts.next().unwrap_or("");
        let file = file.rsplit('/').next().unwrap_or(file);
        let line = parts.next().unwrap_or("");
        return format!("{}:{}", file, line);
    }
    "unknown".into()
}

// ---------------------------------------------------------------------------------------
// Scripted large-size scenarios (beyond what random search reaches cheaply)
// ---------------------------------------------------------------------------------------

#[derive(Clone, Debug, Serialize, Deserialize)]
pub enum Scenario {
    /// max_packet_size, item length: add_broadcast then a send that carries it
    BigItem { max_packet: u32, len: u32, codec: CodecKind },
    /// set_config to another packet size (bigger or smaller), then sends of every kind
    Resize { from: u32, to: u32, codec: CodecKind },
    /// `members` active members, packet large enough for all of them, then an Announce arrives
    HugeFeed { members: u32, max_packet: u32 },
    /// same with a 32-bit address space, so that more than u16::MAX members can be active
    HugeFeedWide { members: u32, max_packet: u32 },
}

fn scenario_list(tier: Tier) -> Vec<Scenario> {
    let mut v = Vec::new();
    for codec in [CodecKind::Fix, CodecKind::Postcard] {
        for max_packet in [65_535u32, 65_537, 65_538, 65_560, 70_000, 200_000] {
            for len in [65_520u32, 65_533, 65_534, 65_535, 65_536, 65_537, 65_540, 69_000] {
                v.push(Scenario::BigItem { max_packet, len, codec });
            }
        }
        for (from, to) in [(1400u32, 1401u32), (1400, 1399), (1400, 20), (20, 1400), (1400, 70_000), (70_000, 64), (1, 2), (2, 1)] {
            v.push(Scenario::Resize { from, to, codec });
        }
    }
    if tier == Tier::Thorough {
        v.push(Scenario::HugeFeed { members: 65_534, max_packet: 2_000_000 });
        v.push(Scenario::HugeFeed { members: 65_535, max_packet: 2_000_000 });
        v.push(Scenario::HugeFeed { members: 65_536, max_packet: 2_000_000 });
        v.push(Scenario::HugeFeed { members: 70_000, max_packet: 2_000_000 });
        v.push(Scenario::HugeFeedWide { members: 65_534, max_packet: 1_000_000 });
        v.push(Scenario::HugeFeedWide { members: 65_537, max_packet: 1_000_000 });
        v.push(Scenario::HugeFeedWide { members: 70_000, max_packet: 1_000_000 });
    } else {
        v.push(Scenario::HugeFeed { members: 3_000, max_packet: 100_000 });
        v.push(Scenario::HugeFeedWide { members: 3_000, max_packet: 100_000 });
        v.push(Scenario::HugeFeedWide { members: 66_000, max_packet: 600_000 });
    }
    v
}

// --- a second, minimal identity with a 32-bit address space (only used by HugeFeedWide)
mod wide {
    use bytes::{Buf, BufMut};
    use foca::{Codec, Header, Identity, Member, Message, State};
    #[derive(Clone, Copy, Debug, PartialEq, Eq)]
    pub struct W(pub u32);
    impl Identity for W {
        type Addr = u32;
        fn renew(&self) -> Option<Self> {
            None
        }
        fn addr(&self) -> u32 {
            self.0
        }
        fn win_addr_conflict(&self, _o: &Self) -> bool {
            false
        }
    }
    #[derive(Debug)]
    pub struct E;
    impl std::fmt::Display for E {
        fn fmt(&self, f: &mut std::fmt::Formatter<'_>) -> std::fmt::Result {
            f.write_str("wide codec error")
        }
    }
    impl std::error::Error for E {}
    pub struct WC;
    impl Codec<W> for WC {
        type Error = E;
        fn encode_header(&mut self, h: &Header<W>, mut b: impl BufMut) -> Result<(), E> {
            if b.remaining_mut() < 11 {
                return Err(E);
            }
            b.put_u32(h.src.0);
            b.put_u16(h.src_incarnation);
            b.put_u32(h.dst.0);
            b.put_u8(match h.message {
                Message::Announce => 6,
                Message::Feed => 7,
                Message::Gossip => 8,
                _ => 9,
            });
            Ok(())
        }
        fn decode_header(&mut self, mut b: impl Buf) -> Result<Header<W>, E> {
            if b.remaining() < 11 {
                return Err(E);
            }
            let src = W(b.get_u32());
            let src_incarnation = b.get_u16();
            let dst = W(b.get_u32());
            let message = match b.get_u8() {
                6 => Message::Announce,
                7 => Message::Feed,
                8 => Message::Gossip,
                _ => Message::Broadcast,
            };
            Ok(Header { src, src_incarnation, dst, message })
        }
        fn encode_member(&mut self, m: &Member<W>, mut b: impl BufMut) -> Result<(), E> {
            if b.remaining_mut() < 7 {
                return Err(E);
            }
            b.put_u32(m.id().0);
            b.put_u16(m.incarnation());
            b.put_u8(match m.state() {
                State::Alive => 0,
                State::Suspect => 1,
                State::Down => 2,
            });
            Ok(())
        }
        fn decode_member(&mut self, mut b: impl Buf) -> Result<Member<W>, E> {
            if b.remaining() < 7 {
                return Err(E);
            }
            let id = W(b.get_u32());
            let inc = b.get_u16();
            let st = match b.get_u8() {
                0 => State::Alive,
                1 => State::Suspect,
                2 => State::Down,
                _ => return Err(E),
            };
            Ok(Member::new(id, inc, st))
        }
    }
}

fn huge_feed_wide(members: u32, max_packet: u32) -> Result<(usize, Vec<Vec<u8>>), String> {
    use rand::SeedableRng;
    use wide::*;
    let cfg = CfgSpec { max_packet, ..CfgSpec::default() }.to_config();
    let r = std::panic::catch_unwind(move || {
        let mut f = foca::Foca::new(W(0), cfg, rand::rngs::SmallRng::seed_from_u64(1), WC);
        let mut rt = foca::AccumulatingRuntime::new();
        f.apply_many((1..=members).map(|k| Member::new(W(k), 0, State::Alive)), false, &mut rt).map_err(|e| e.to_string())?;
        while rt.to_notify().is_some() {}
        while rt.to_schedule().is_some() {}
        let mut dg = Vec::new();
        foca::Codec::encode_header(&mut WC, &foca::Header { src: W(1), src_incarnation: 0, dst: W(0), message: foca::Message::Announce }, &mut dg).unwrap();
        f.handle_data(&dg, &mut rt).map_err(|e| e.to_string())?;
        let mut out = Vec::new();
        while let Some((_to, b)) = rt.to_send() {
            out.push(b.to_vec());
        }
        Ok::<_, String>((f.num_members(), out))
    });
    match r {
        Ok(x) => x,
        Err(_) => Err(format!("PANIC {}", take_last_panic())),
    }
}

fn chk(rec: &CallRec, what: &str) -> Result<(), Fail> {
    if let Res::Panic(msg) = &rec.res {
        return Err(Fail::new(format!("C06:panic:{}", panic_signature(msg)), format!("Foca panicked ({}) during {what}: {msg}", regime())));
    }
    Ok(())
}

pub fn exec_scenario(s: &Scenario, out: &mut CaseOut) -> Result<(), Fail> {
    let mk = |max_packet: u32, codec: CodecKind| {
        Inst::new(Id::new(0, 0), CfgSpec { max_packet, max_tx: 2, ..CfgSpec::default() }, codec, 3, HandlerSpec { enabled: true, inval: crate::handler::Inval::Never, accept: crate::handler::Accept::Always, recipients: u32::MAX, accept_empty: false })
    };
    match s {
        Scenario::BigItem { max_packet, len, codec } => {
            let mut i = mk(*max_packet, *codec);
            chk(&i.call(Call::ApplyMany(vec![Member::new(Id::new(1, 0), 0, State::Alive)], true)), "apply_many")?;
            let data: Vec<u8> = (0..*len).map(|x| (x % 250) as u8 + 1).collect();
            let r = i.call(Call::AddBroadcast(data));
            chk(&r, "add_broadcast")?;
            let accepted = r.res == Res::OkBool(true);
            let g = i.call(Call::Gossip);
            chk(&g, "gossip after add_broadcast")?;
            let b = i.call(Call::Broadcast);
            chk(&b, "broadcast after add_broadcast")?;
            // whatever was sent must still be a well-formed datagram whose items are whole
            for rec in [&g, &b] {
                for e in &rec.evs {
                    if let Ev::Send { bytes, .. } = e {
                        if let Err(e) = crate::wire::parse(bytes, *codec) {
                            return Err(Fail::new("C06:big-item-corrupts-datagram", format!("after add_broadcast of {len} bytes (accepted={accepted}, max_packet_size={max_packet}) an emitted datagram is malformed: {e}")));
                        }
                    }
                }
            }
            out.nontrivial(("big", *max_packet, *len, accepted));
        }
        Scenario::Resize { from, to, codec } => {
            let mut i = mk(*from, *codec);
            chk(&i.call(Call::ApplyMany(vec![Member::new(Id::new(1, 0), 0, State::Alive), Member::new(Id::new(2, 0), 0, State::Suspect)], true)), "apply_many")?;
            chk(&i.call(Call::Gossip), "gossip")?;
            let mut c = i.cfg.clone();
            c.max_packet = *to;
            let r = i.call(Call::SetConfig(c));
            chk(&r, "set_config")?;
            for call in [Call::Gossip, Call::Announce(Id::new(1, 0)), Call::AddBroadcast(vec![1, 2, 3]), Call::Broadcast, Call::Leave] {
                let rec = i.call(call);
                chk(&rec, "a send after set_config changed max_packet_size")?;
                for e in &rec.evs {
                    if let Ev::Send { bytes, .. } = e {
                        if r.res.is_ok() && bytes.len() > *to as usize {
                            return Err(Fail::new("C06:resize-ignored", format!("datagram of {} bytes after max_packet_size was set to {to}", bytes.len())));
                        }
                    }
                }
            }
            out.nontrivial(("resize", *from, *to));
        }
        Scenario::HugeFeed { members, max_packet } => {
            let mut i = mk(*max_packet, CodecKind::Fix);
            let ms: Vec<Member<Id>> = (0..*members).map(|k| Member::new(Id::new(1 + (k % 65_000) as u16, (k / 65_000) as u16 * 0 + (k / 65_000) as u16), 0, State::Alive)).collect();
            // one address per member: addresses 1..=65000 then wrap with a different generation is NOT a new
            // address, so use distinct addresses only
            let ms: Vec<Member<Id>> = ms.into_iter().enumerate().map(|(k, _)| Member::new(Id::new((k % 65_535) as u16 + 1, 0), 0, State::Alive)).collect();
            let (res, _, _, _) = i.raw_call(&Call::ApplyMany(ms, false));
            if let Res::Panic(msg) = &res {
                return Err(Fail::new(format!("C06:panic:{}", panic_signature(msg)), format!("panic in apply_many of {members} members: {msg}")));
            }
            let n = i.foca.num_members();
            let h = foca::Header { src: Id::new(1, 0), src_incarnation: 0, dst: Id::new(0, 0), message: foca::Message::Announce };
            let bytes = crate::wire::build(CodecKind::Fix, &h, None, &[]);
            let (res, evs, _, _) = i.raw_call(&Call::Data(bytes));
            if let Res::Panic(msg) = &res {
                return Err(Fail::new(format!("C06:panic:{}", panic_signature(msg)), format!("panic ({}) while answering an Announce with {n} active members and max_packet_size {max_packet}: {msg}", regime())));
            }
            for e in &evs {
                if let Ev::Send { bytes, .. } = e {
                    if let Err(e) = crate::wire::parse(bytes, CodecKind::Fix) {
                        return Err(Fail::new("C06:huge-feed-malformed", format!("Feed with {n} active members is malformed: {e}")));
                    }
                }
            }
            out.nontrivial(("feed", n, *max_packet));
        }
        Scenario::HugeFeedWide { members, max_packet } => match huge_feed_wide(*members, *max_packet) {
            Err(e) if e.starts_with("PANIC ") => {
                let msg = &e[6..];
                return Err(Fail::new(
                    format!("C06:panic:{}", panic_signature(msg)),
                    format!("panic ({}) while answering an Announce with {members} active members and max_packet_size {max_packet}: {msg}", regime()),
                ));
            }
            Err(e) => return Err(Fail::new("C06:huge-feed-error", format!("unexpected error with {members} members: {e}"))),
            Ok((n, sent)) => {
                for b in &sent {
                    // independent parse: header(11) count(2) members(7 each), nothing else
                    if b.len() < 13 {
                        return Err(Fail::new("C06:huge-feed-malformed", format!("feed of {} bytes", b.len())));
                    }
                    let count = u16::from_be_bytes([b[11], b[12]]) as usize;
                    if 13 + count * 7 != b.len() {
                        return Err(Fail::new(
                            "C06:huge-feed-malformed",
                            format!("Feed built from {n} active members declares {count} members but carries {} bytes of member data ({} entries): the 16-bit count wrapped", b.len() - 13, (b.len() - 13) / 7),
                        ));
                    }
                }
                out.nontrivial(("feed-wide", n, *max_packet, sent.len()));
            }
        },
    }
    if out.want_sample {
        out.sample = Some(json!({"scenario": s, "regime": regime()}));
    }
    Ok(())
}

// ---------------------------------------------------------------------------------------
// Configuration constructors
// ---------------------------------------------------------------------------------------

fn ctor_ok(n: u32) -> Result<(), String> {
    let r = std::panic::catch_unwind(|| {
        let nz = NonZeroU32::new(n).unwrap();
        let a = Config::new_lan(nz);
        let b = Config::new_wan(nz);
        // the values must be usable: non-zero durations, ordered probe timing
        (a.probe_rtt < a.probe_period, b.probe_rtt < b.probe_period, a.suspect_to_down_after.as_nanos() > 0, b.suspect_to_down_after.as_nanos() > 0, a.max_transmissions.get(), b.max_transmissions.get())
    });
    match r {
        Ok((true, true, true, true, _, _)) => Ok(()),
        Ok(v) => Err(format!("constructor produced unusable values {:?}", v)),
        Err(_) => Err(format!("panicked: {}", take_last_panic())),
    }
}

pub fn run_ctor(ctx: &Ctx, report: &mut Report) {
    let t0 = std::time::Instant::now();
    let full = ctx.tier == Tier::Thorough;
    let threads = ctx.threads as u64;
    let stride: u64 = if full { 1 } else { 251 };
    let fails = std::sync::Mutex::new(Vec::<(u32, String)>::new());
    let count = std::sync::atomic::AtomicU64::new(0);
    std::thread::scope(|s| {
        for t in 0..threads {
            let (fails, count) = (&fails, &count);
            s.spawn(move || {
                let mut n: u64 = 1 + t * stride;
                let mut local = 0u64;
                while n <= u32::MAX as u64 {
                    if let Err(e) = ctor_ok(n as u32) {
                        fails.lock().unwrap().push((n as u32, e));
                        break;
                    }
                    local += 1;
                    n += threads * stride;
                }
                count.fetch_add(local, std::sync::atomic::Ordering::Relaxed);
            });
        }
    });
    // boundaries always
    let mut extra = 0u64;
    for n in (1..=4096u32).chain([9, 10, 11, 99, 100, 101, 999, 1000, 1001, u32::MAX - 2, u32::MAX - 1, u32::MAX, 1 << 31, (1 << 31) - 1, (1 << 24) + 1]) {
        if let Err(e) = ctor_ok(n) {
            fails.lock().unwrap().push((n, e));
        }
        extra += 1;
    }
    let total = count.into_inner() + extra;
    let fails = fails.into_inner().unwrap();
    report.evaluations += total;
    report.parts.push(json!({"part": "config-constructors", "cases": total, "complete": full, "regime": regime(), "wall_s": t0.elapsed().as_secs_f64(), "generator": if full {"exhaustive: every NonZeroU32"} else {"strided (every 251st value) + boundaries"}}));
    if full && fails.is_empty() {
        report.exhaustive_parts.push(format!("config-constructors ({} values, complete, {})", total, regime()));
    }
    report.nontrivial.insert(hash_of(&("ctor", regime(), 1u8)));
    report.nontrivial.insert(hash_of(&("ctor", regime(), 2u8)));
    if let Some((n, e)) = fails.first() {
        let rf = ReplayFile { property: "C06".into(), part: "config-constructors".into(), signature: "C06:constructor".into(), message: format!("Config::new_lan/new_wan({n}): {e}"), case: json!(n) };
        let dir = verif_root().join("replays");
        let _ = std::fs::create_dir_all(&dir);
        let path = dir.join(format!("C06-config-constructors-{n}.json"));
        let _ = std::fs::write(&path, serde_json::to_string_pretty(&rf).unwrap());
        report.violations.push((rf, path));
    }
}

/// Long-lived instances: several hundred probe cycles on one instance (acknowledged directly or
/// through a helper), so that every small counter wraps - in both build regimes, where a plain `+ 1`
/// on an 8-bit counter is an overflow panic.
pub struct LongLivedPart;
impl Part for LongLivedPart {
    type Case = Case;
    fn name(&self) -> &'static str {
        "long-lived-instance"
    }
    fn strategy(&self, t: Tier) -> BoxedStrategy<Case> {
        crate::props::c12::LongPart.strategy(t)
    }
    fn cases(&self, tier: Tier) -> u64 {
        tier.pick(200, 5_000)
    }
    fn exec(&self, c: &Case, out: &mut CaseOut) -> Result<(), Fail> {
        let mut r = Runner::new(&c.setup);
        let mut pings = 0u64;
        for op in &c.ops {
            let Some((rec, _)) = r.step(op) else { continue };
            if let Res::Panic(msg) = &rec.res {
                return Err(Fail::new(
                    format!("C06:panic:{}", panic_signature(msg)),
                    format!("Foca panicked ({}) in {} after {} probe rounds of one instance\n message: {}", regime(), rec.call.kind(), pings, msg),
                ));
            }
            if matches!(rec.call, Call::Timer(foca::Timer::ProbeRandomMember(_))) {
                pings += 1;
            }
        }
        out.sub_evaluations += pings;
        out.max("probe_rounds_of_one_instance", pings);
        if pings > 256 {
            out.class("more_than_256_probe_rounds");
            out.nontrivial((pings / 16, c.setup.codec));
        }
        Ok(())
    }
    fn max_shrink_iters(&self) -> u32 {
        100
    }
}

pub fn run_inner(ctx: &Ctx, report: &mut Report) {
    ctx.replay_corpus("api_ops", report);
    ctx.replay_corpus("wire_bytes", report);
    if ctx.tier == Tier::Thorough && std::env::var("VERIF_C06_CHILD").is_err() {
        ctx.fuzz_campaign("api_ops", 800_000, 1024, report);
        ctx.fuzz_campaign("wire_bytes", 20_000_000, 300, report);
    }
    ctx.run_part(&OpsPart, report);
    ctx.run_part(&LongLivedPart, report);
    let list = scenario_list(ctx.tier);
    ctx.run_enum("scripted-large-sizes", list.len() as u64, |i| list[i as usize].clone(), exec_scenario, report, false);
    run_ctor(ctx, report);
}

pub fn run(ctx: &Ctx, report: &mut Report) -> EvidenceMeta {
    run_inner(ctx, report);
    for p in report.parts.iter_mut() {
        if let Some(o) = p.as_object_mut() {
            o.entry("regime").or_insert(json!(regime()));
        }
    }
    // second regime: the same checks in a build with debug assertions and overflow checks
    if std::env::var("VERIF_C06_CHILD").is_err() {
        if let Ok(bin) = std::env::var("VERIF_BIN_ASSERT") {
            let outp = verif_root().join("target").join(format!("c06-child-{}.json", std::process::id()));
            let status = std::process::Command::new(&bin)
                .args(["C06", ctx.tier.name()])
                .env("VERIF_C06_CHILD", &outp)
                .env("VERIF_SEED", ctx.seed.to_string())
                .stdout(std::process::Stdio::piped())
                .stderr(std::process::Stdio::inherit())
                .output();
            match status {
                Ok(o) if o.status.code() == Some(0) || o.status.code() == Some(1) => {
                    let txt = std::fs::read_to_string(&outp).unwrap_or_default();
                    let _ = std::fs::remove_file(&outp);
                    match serde_json::from_str::<Value>(&txt) {
                        Ok(v) => {
                            report.evaluations += v["evaluations"].as_u64().unwrap_or(0);
                            report.sub_evaluations += v["sub_evaluations"].as_u64().unwrap_or(0);
                            for h in v["nontrivial"].as_array().cloned().unwrap_or_default() {
                                report.nontrivial.insert(h.as_u64().unwrap_or(0) ^ 0xA55E27);
                            }
                            for p in v["parts"].as_array().cloned().unwrap_or_default() {
                                report.parts.push(p);
                            }
                            for e in v["exhaustive_parts"].as_array().cloned().unwrap_or_default() {
                                report.exhaustive_parts.push(e.as_str().unwrap_or("").to_string());
                            }
                            for viol in v["violations"].as_array().cloned().unwrap_or_default() {
                                let rf: ReplayFile = serde_json::from_value(viol["file"].clone()).unwrap();
                                let path = std::path::PathBuf::from(viol["path"].as_str().unwrap_or(""));
                                report.violations.push((rf, path));
                            }
                            for (k, n) in v["known_seen"].as_object().cloned().unwrap_or_default() {
                                *report.known_seen.entry(k).or_insert(0) += n.as_u64().unwrap_or(0);
                            }
                            report.excluded_known += v["excluded_known"].as_u64().unwrap_or(0);
                        }
                        Err(e) => {
                            eprintln!("C06: assertion-build child produced no summary ({e}); inconclusive");
                            std::process::exit(2);
                        }
                    }
                }
                Ok(o) => {
                    eprintln!("C06: assertion-build child exited abnormally ({:?}); inconclusive\n{}", o.status, String::from_utf8_lossy(&o.stdout));
                    std::process::exit(2);
                }
                Err(e) => {
                    eprintln!("C06: cannot run assertion build {bin}: {e}; inconclusive");
                    std::process::exit(2);
                }
            }
        } else {
            eprintln!("C06: VERIF_BIN_ASSERT not set; only the {} regime was exercised", regime());
        }
    } else {
        // child: dump the report for the parent and stop
        let outp = std::env::var("VERIF_C06_CHILD").unwrap();
        let v = json!({
            "evaluations": report.evaluations, "sub_evaluations": report.sub_evaluations,
            "nontrivial": report.nontrivial.iter().collect::<Vec<_>>(),
            "parts": report.parts, "exhaustive_parts": report.exhaustive_parts,
            "violations": report.violations.iter().map(|(rf, p)| json!({"file": rf, "path": p})).collect::<Vec<_>>(),
            "known_seen": report.known_seen, "excluded_known": report.excluded_known,
        });
        let _ = std::fs::write(outp, serde_json::to_string(&v).unwrap());
        std::process::exit(if report.violations.is_empty() { 0 } else { 1 });
    }
    EvidenceMeta {
        level: "exploration",
        rule: "every generator runs twice: in a release build and in an optimised build with debug assertions + overflow checks (child process). (0) long-lived instances: 260..330 acknowledged probe cycles on one instance so that 8-bit counters wrap; (1) proptest sequences of up to 200 operations on two wired instances (full alphabet: structurally valid datagrams with adversarial fields, mangled/truncated/random bytes, issued timers in any order and re-delivered, hand-crafted timers of every variant with arbitrary tokens/identities, apply_many, announce/gossip/broadcast, add_broadcast incl. empty/oversized/near-u16::MAX, leave, change_identity to any identity, reuse, set_config legal and illegal incl. packet-size changes; packet sizes 1..70000, max_transmissions 1..254, 4 codecs), every emitted datagram can be delivered (also twice) to the other instance; (2) scripted large-size scenarios (items around 65535 bytes under packet limits around 64 KiB, packet-size reconfiguration followed by every kind of send, very large Feed); (3) Config::new_lan/new_wan for every 251st NonZeroU32 plus boundaries (quick) or all 2^32-1 values (thorough). Oracle: catch_unwind around every call: no panic. Non-trivial: a sequence that reached >= 3 distinct Error variants, a state change after a successful reconfiguration, or a crafted timer carrying the current token; distinct = (set of (call kind, result kind), set of message kinds sent, regime)."
            .into(),
        assumptions: vec![
            "user-supplied Codec, Runtime, BroadcastHandler and Identity are the harness's own total implementations (and the bundled postcard / limited-bincode codecs)".into(),
            "allocation failure is out of scope".into(),
        ],
    }
}

pub fn replay(part_name: &str, case: &Value) -> Option<Result<(), Fail>> {
    match part_name {
        p if p.starts_with("fuzz:") => replay_fuzz(p, case),
        "api-sequences" => Some(replay_with(&OpsPart, case)),
        "long-lived-instance" => Some(replay_with(&LongLivedPart, case)),
        "scripted-large-sizes" => Some((|| {
            let s: Scenario = serde_json::from_value(case.clone()).map_err(|e| Fail::new("replay:bad-file", e.to_string()))?;
            exec_scenario(&s, &mut CaseOut::default())
        })()),
        "config-constructors" => Some((|| {
            let n: u32 = serde_json::from_value(case.clone()).map_err(|e| Fail::new("replay:bad-file", e.to_string()))?;
            ctor_ok(n.max(1)).map_err(|e| Fail::new("C06:constructor", e))
        })()),
        _ => None,
    }
}
