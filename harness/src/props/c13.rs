//! C13 — Timer epochs: recurring loops are never lost, duplicated or resurrected.
use crate::codec::CodecKind;
use crate::engine::*;
use crate::ensure;
use crate::hist::*;
use crate::ident::*;
use crate::inst::*;
use crate::ops::*;
use crate::rt::{notes, sends, timer_kind, timer_token, timers};
use foca::{Message, Timer};
use serde_json::Value;

pub struct Mon {
    in_order: bool,
    codec: CodecKind,
    conn: ConnTracker,
    token0: Option<u8>,
    /// periodic tasks (announce, announce_down, gossip) that were armed at some point and later disabled
    disabled_after_arm: [bool; 3],
    cfg_prev: CfgSpec,
    stale_fired: u32,
    epoch_changes_before_stale: bool,
    disabled_running_task: bool,
    incomplete_cycles: u32,
    calls: u64,
    trace: Vec<u8>,
}

impl Mon {
    pub fn new(in_order: bool, codec: CodecKind, cfg: &CfgSpec) -> Self {
        Mon {
            in_order,
            codec,
            conn: ConnTracker::default(),
            token0: None,
            disabled_after_arm: [false; 3],
            cfg_prev: cfg.clone(),
            stale_fired: 0,
            epoch_changes_before_stale: false,
            disabled_running_task: false,
            incomplete_cycles: 0,
            calls: 0,
            trace: Vec::new(),
        }
    }
}

fn periodic_index(t: &Timer<Id>) -> Option<usize> {
    match t {
        Timer::PeriodicAnnounce(_) => Some(0),
        Timer::PeriodicAnnounceDown(_) => Some(1),
        Timer::PeriodicGossip(_) => Some(2),
        _ => None,
    }
}

impl Monitor for Mon {
    fn on_call(&mut self, rec: &CallRec, origin: &Origin, runner: &Runner) -> Result<(), Fail> {
        self.calls += 1;
        let tok_before = rec.before.snap.timer_token;
        let tok_after = rec.after.snap.timer_token;
        if self.token0.is_none() {
            self.token0 = Some(tok_before);
        }
        let epoch_before = self.conn.epoch;
        let state_before = self.conn.state;
        self.conn.absorb(rec);
        // epoch inferred from notifications must agree with the instance's token
        let delta = (self.conn.epoch - epoch_before) as u8;
        ensure!(
            tok_after == tok_before.wrapping_add(delta),
            "C13:token-vs-epoch",
            "the call caused {} epoch change(s) (Idle/Defunct/Rejoin/identity change) but the timer token went {} -> {}",
            self.conn.epoch - epoch_before,
            tok_before,
            tok_after
        );
        // every timer issued in this call (other than forget-timers) belongs to an epoch of this call
        for (t, _) in timers(&rec.evs) {
            if let Some(k) = timer_token(t) {
                let ok = (0..=delta).any(|d| tok_before.wrapping_add(d) == k);
                ensure!(ok, "C13:timer-issued-with-foreign-token", "timer {:?} issued with a token outside this call's epochs ({}..={})", t, tok_before, tok_after);
            }
        }
        // the delivered timer
        if let (Call::Timer(t), Origin::Issued(_p)) = (&rec.call, origin) {
            let stale = timer_token(t).map(|k| k != tok_before).unwrap_or(false);
            if stale {
                self.stale_fired += 1;
                if self.conn.epoch >= 2 {
                    self.epoch_changes_before_stale = true;
                }
                self.trace.push(1);
                ensure!(rec.res == Res::Ok, "C13:stale-timer-error", "stale timer {:?} (current token {}) returned {:?}", t, tok_before, rec.res);
                ensure!(rec.evs.is_empty(), "C13:stale-timer-effect", "stale timer {:?} (current token {}) caused effects {:?}", t, tok_before, rec.evs);
                ensure!(rec.before == rec.after, "C13:stale-timer-state-change", "stale timer {:?} changed observable state", t);
            } else {
                // errors
                match &rec.res {
                    Res::Ok => {}
                    Res::Err(ErrKind::IncompleteProbeCycle, _) if !self.in_order => {
                        self.incomplete_cycles += 1;
                        self.trace.push(2);
                        let rearmed = timers(&rec.evs).any(|(t, _)| matches!(t, Timer::ProbeRandomMember(k) if *k == tok_after));
                        ensure!(rearmed || tok_after != tok_before, "C13:probing-not-resumed", "IncompleteProbeCycle returned but no ProbeRandomMember timer was scheduled");
                        if rec.after.num_members > 0 && tok_after == tok_before {
                            let ping = sent_dgrams(rec, self.codec, "C13")?.iter().any(|s| matches!(s.dgram.header.message, Message::Ping(_)));
                            let sip = timers(&rec.evs).any(|(t, _)| matches!(t, Timer::SendIndirectProbe { .. }));
                            ensure!(ping && sip, "C13:probing-not-resumed", "IncompleteProbeCycle returned but the next probe round was not started (ping={ping}, indirect timer={sip})");
                        }
                    }
                    other => {
                        return Err(Fail::new(
                            "C13:timer-error",
                            format!("handle_timer({:?}) returned {:?} ({} delivery)", t, other, if self.in_order { "deadline-order" } else { "out-of-order" }),
                        ))
                    }
                }
                // a left-over timer of a task disabled by set_config must be inert
                if let Some(i) = periodic_index(t) {
                    let enabled = match i {
                        0 => runner.inst.cfg.periodic_announce.is_some(),
                        1 => runner.inst.cfg.periodic_announce_down.is_some(),
                        _ => runner.inst.cfg.periodic_gossip.is_some(),
                    };
                    if !enabled {
                        ensure!(rec.evs.is_empty(), "C13:disabled-task-not-inert", "timer {:?} of a disabled periodic task caused {:?}", t, rec.evs);
                    } else if state_before == ConnState::Active {
                        // an enabled task re-arms itself exactly once
                        let n = timers(&rec.evs).filter(|(x, _)| timer_kind(x) == timer_kind(t)).count();
                        ensure!(n == 1, "C13:periodic-task-not-rearmed-once", "periodic timer {:?} fired while active and re-armed {} times", t, n);
                    }
                }
            }
        }
        // set_config bookkeeping
        if let (Call::SetConfig(c), true) = (&rec.call, rec.res.is_ok()) {
            let old = &self.cfg_prev;
            let pairs = [
                (old.periodic_announce.is_some(), c.periodic_announce.is_some()),
                (old.periodic_announce_down.is_some(), c.periodic_announce_down.is_some()),
                (old.periodic_gossip.is_some(), c.periodic_gossip.is_some()),
            ];
            for (i, (was, is)) in pairs.iter().enumerate() {
                if *was && !*is {
                    self.disabled_after_arm[i] = true;
                    if self.conn.state == ConnState::Active {
                        self.disabled_running_task = true;
                        self.trace.push(3);
                    }
                }
            }
        }
        if let (Call::SetConfig(c), true) = (&rec.call, rec.res.is_ok()) {
            self.cfg_prev = c.clone();
        }
        // --- the outstanding-timer invariant, from the harness's own pool of issued-not-delivered timers
        let cur = tok_after;
        let count = |pred: &dyn Fn(&Timer<Id>) -> bool| runner.pool.iter().filter(|p| pred(&p.timer)).count();
        let probe = count(&|t| matches!(t, Timer::ProbeRandomMember(k) if *k == cur));
        let per = [
            count(&|t| matches!(t, Timer::PeriodicAnnounce(k) if *k == cur)),
            count(&|t| matches!(t, Timer::PeriodicAnnounceDown(k) if *k == cur)),
            count(&|t| matches!(t, Timer::PeriodicGossip(k) if *k == cur)),
        ];
        let enabled = [
            runner.inst.cfg.periodic_announce.is_some(),
            runner.inst.cfg.periodic_announce_down.is_some(),
            runner.inst.cfg.periodic_gossip.is_some(),
        ];
        let names = ["PeriodicAnnounce", "PeriodicAnnounceDown", "PeriodicGossip"];
        if self.conn.state == ConnState::Active {
            ensure!(probe == 1, "C13:probe-timer-count", "active instance has {} outstanding ProbeRandomMember timers of the current epoch (expected exactly 1)", probe);
            for i in 0..3 {
                if enabled[i] {
                    ensure!(per[i] == 1, "C13:periodic-timer-count", "active instance has {} outstanding {} timers of the current epoch (expected exactly 1)", per[i], names[i]);
                } else if self.disabled_after_arm[i] {
                    ensure!(per[i] <= 1, "C13:periodic-timer-count", "{} left-over {} timers for a disabled task", per[i], names[i]);
                } else {
                    ensure!(per[i] == 0, "C13:periodic-timer-for-disabled-task", "{} {} timers outstanding although the task was never enabled", per[i], names[i]);
                }
            }
        } else {
            let effective = runner.pool.iter().filter(|p| timer_token(&p.timer) == Some(cur)).count();
            ensure!(
                effective == 0,
                "C13:effective-timer-while-inactive",
                "instance is {:?} but {} outstanding timer(s) carry the current token {}: {:?}",
                self.conn.state,
                effective,
                cur,
                runner.pool.iter().filter(|p| timer_token(&p.timer) == Some(cur)).map(|p| &p.timer).collect::<Vec<_>>()
            );
        }
        let _ = (notes(&rec.evs).count(), sends(&rec.evs).count());
        Ok(())
    }

    fn finish(&mut self, out: &mut CaseOut) {
        out.sub_evaluations += self.calls;
        out.class_n("stale_timers_delivered", self.stale_fired as u64);
        out.class_n("incomplete_probe_cycles", self.incomplete_cycles as u64);
        if self.disabled_running_task {
            out.class("set_config_disabled_running_task");
        }
        if self.epoch_changes_before_stale {
            out.class("two_epoch_changes_then_stale_timer");
        }
        if self.epoch_changes_before_stale || self.disabled_running_task {
            let mut t = self.trace.clone();
            t.truncate(16);
            out.nontrivial((self.in_order, t, self.conn.epoch.min(12)));
        }
    }
}

fn part(in_order: bool) -> HistPart<Mon, impl Fn(&Setup) -> Mon + Sync> {
    let mut p = Profile::default();
    p.old_timers = false;
    p.crafted_timers = false;
    p.in_order_only = in_order;
    p.any_order = !in_order;
    p.timers_weight = 45;
    p.max_len = 140;
    p.set_config = true;
    // includes attempts to enable a periodic task or change the probe timing at run time (documented
    // to be refused): an accepted "enable" would leave an enabled task without any timer
    p.illegal_config = true;
    let sp = SetupProfile::default();
    HistPart {
        name: if in_order { "deadline-order" } else { "any-order" },
        sp,
        p,
        cases_quick: 75_000,
        cases_thorough: 1_500_000,
        mk: move |s: &Setup| Mon::new(in_order, s.codec, &s.cfg),
    }
}

/// Every value of the 8-bit timer token x every kind of epoch change: after k earlier identity changes the
/// instance becomes active with timers of every kind pending, then leaves / goes idle / changes identity /
/// is told it is down; every timer issued before must be ignored afterwards.
fn token_case(index: u64) -> Case {
    let k = (index % 257) as usize;
    let e = (index / 257) % 5;
    let renew = if e == 4 { RENEW_NEXT } else { RENEW_NONE };
    let mut ops = Vec::new();
    for i in 0..k {
        ops.push(Op::ChangeIdentity(IdSel::OwnAddr(5 + (i % 2) as u8), renew));
    }
    let gossip = |a: u8, members: Vec<MemberSpec>| {
        Op::Data(DataSpec { src: IdSel::Abs(a, 0), inc: IncSel::Abs(0), dst: DstSel::Me, msg: MsgSel::Gossip, members: Some(members), items: vec![], mangle: Mangle::None })
    };
    ops.push(gossip(1, vec![]));
    ops.push(gossip(2, vec![]));
    // one unanswered probe round: Ping, PingReq, then Suspect + ChangeSuspectToDown, and the next round opened
    ops.push(Op::FireNext);
    ops.push(Op::FireNext);
    ops.push(Op::FireNext);
    let down = |a: u8| MemberSpec { id: IdSel::Abs(a, 0), inc: IncSel::Abs(0), state: 2 };
    ops.push(match e {
        0 => Op::Leave,
        1 => Op::ApplyMany(vec![down(1), down(2)], true),
        2 => Op::ChangeIdentity(IdSel::OwnAddr(9), renew),
        _ => gossip(1, vec![MemberSpec { id: IdSel::Own, inc: IncSel::Abs(0), state: 2 }]),
    });
    for _ in 0..14 {
        ops.push(Op::Fire(0));
    }
    Case {
        setup: Setup {
            own_gen: 1,
            own_renew: renew,
            cfg: CfgSpec {
                notify_down: true,
                periodic_announce: Some(Periodic { every_ms: 5000, num: 1 }),
                periodic_announce_down: Some(Periodic { every_ms: 7000, num: 1 }),
                periodic_gossip: Some(Periodic { every_ms: 400, num: 1 }),
                ..CfgSpec::default()
            },
            codec: CodecKind::Fix,
            rng_seed: index,
            handler: crate::handler::HandlerSpec::OFF,
        },
        ops,
    }
}

/// Deadline-order delivery over several hundred probe cycles of one instance: the 8-bit probe number
/// wraps, and handle_timer must still never return an error.
pub struct LongOrderedPart;
impl Part for LongOrderedPart {
    type Case = Case;
    fn name(&self) -> &'static str {
        "deadline-order-across-probe-number-wrap"
    }
    fn strategy(&self, t: Tier) -> proptest::strategy::BoxedStrategy<Case> {
        crate::props::c12::LongPart.strategy(t)
    }
    fn cases(&self, tier: Tier) -> u64 {
        tier.pick(300, 10_000)
    }
    fn exec(&self, c: &Case, out: &mut CaseOut) -> Result<(), Fail> {
        let mut m = Mon::new(true, c.setup.codec, &c.setup.cfg);
        run_history(c, &mut m, out)
    }
    fn max_shrink_iters(&self) -> u32 {
        200
    }
}

pub fn run(ctx: &Ctx, report: &mut Report) -> EvidenceMeta {
    ctx.run_enum(
        "epoch-change-at-every-token-value",
        257 * 5,
        token_case,
        |c: &Case, out: &mut CaseOut| {
            let mut m = Mon::new(false, c.setup.codec, &c.setup.cfg);
            run_history(c, &mut m, out)
        },
        report,
        true,
    );
    ctx.run_part(&part(true), report);
    ctx.run_part(&LongOrderedPart, report);
    ctx.run_part(&part(false), report);
    EvidenceMeta {
        level: "exploration",
        rule: "(0) complete enumeration: for each of the 257 possible numbers k of earlier identity changes (so the 8-bit token takes every value, including the wrap) and each of 5 epoch changes (leave, idle, change_identity, Defunct, Rejoin): become active with probe, indirect-probe, suspicion and all periodic timers pending, change epoch, then deliver every older timer; (1, 2) proptest random single-instance histories in which the harness is a runtime delivering every scheduled timer at most once (never twice, never invented): part 'deadline-order' always delivers the earliest deadline (ties by Timer's Ord), part 'any-order' any outstanding timer; a third part delivers 260..330 complete probe cycles of one instance in deadline order so that the 8-bit probe number wraps; interleaved with datagrams / API calls causing Idle, Active, Defunct, Rejoin, change_identity, reuse_down_identity, for all combinations of periodic tasks and set_config changes (including the ones documented to be refused: enabling a task, changing the probe timing). Oracle after every call: timer token moves exactly with the notification-inferred epoch; active => exactly one ProbeRandomMember and one timer per enabled periodic task outstanding with the current token (<= 1 inert left-over for a task disabled by set_config); not active => no outstanding timer carries the current token; stale timers are Ok(()) with no effect and no state change; deadline order => no error; any order => at most IncompleteProbeCycle and probing resumed. Non-trivial: >= 2 epoch changes followed by a stale timer delivery, or set_config disabling a running task."
            .into(),
        assumptions: vec![
            "fewer than 256 epoch changes between issue and delivery (histories are <= 140 calls)".into(),
            "timer token is read through the verif-hooks snapshot; epochs are inferred independently from notifications and the two are compared".into(),
        ],
    }
}

pub fn replay(part_name: &str, case: &Value) -> Option<Result<(), Fail>> {
    match part_name {
        "epoch-change-at-every-token-value" => Some((|| {
            let c: Case = serde_json::from_value(case.clone()).map_err(|e| Fail::new("replay:bad-file", e.to_string()))?;
            let mut m = Mon::new(false, c.setup.codec, &c.setup.cfg);
            run_history(&c, &mut m, &mut CaseOut::default())
        })()),
        "deadline-order" => Some(replay_with(&part(true), case)),
        "deadline-order-across-probe-number-wrap" => Some(replay_with(&LongOrderedPart, case)),
        "any-order" => Some(replay_with(&part(false), case)),
        _ => None,
    }
}
