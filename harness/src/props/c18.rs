//! C18 — Reply cascades terminate: no message storms.
use crate::codec::CodecKind;
use crate::engine::*;
use crate::handler::HandlerSpec;
use crate::ident::*;
use crate::inst::*;
use crate::rt::Ev;
use crate::wire;
use foca::{Header, Member, Message, State};
use proptest::prelude::*;
use rand::{rngs::SmallRng, Rng, SeedableRng};
use serde::{Deserialize, Serialize};
use serde_json::{json, Value};

#[derive(Clone, Debug, Serialize, Deserialize)]
pub struct Know {
    /// which other node (index), generation delta relative to its real identity, incarnation, state
    pub about: u8,
    pub gen_delta: i8,
    pub inc: u16,
    pub state: u8,
    pub broadcast: bool,
}

#[derive(Clone, Debug, Serialize, Deserialize)]
pub struct NodeSetup {
    pub gen: u8,
    pub renew: u8,
    pub notify_down: bool,
    pub max_tx: u8,
    pub num_indirect: u8,
    pub rng_seed: u64,
    pub knows: Vec<Know>,
    /// third-party members (addr 10.., state)
    pub third: Vec<(u8, u8)>,
    /// leave_cluster after the knowledge was applied (=> Defunct)
    pub leave: bool,
    pub items: u8,
    /// start from "knows every other participant as Alive" before the generated knowledge is applied
    #[serde(default)]
    pub mesh: bool,
    /// own incarnation the node starts with (reached the legitimate way: a refuted suspicion)
    #[serde(default)]
    pub own_inc: u16,
    /// max_packet_size (0 = 1400): small packets truncate Feeds, so selections end early
    #[serde(default)]
    pub packet: u16,
    /// further third-party members known as Alive (addresses 20..)
    #[serde(default)]
    pub crowd: u8,
    /// an Announce from the next participant is handled during the set-up (its Feed reply is discarded)
    #[serde(default)]
    pub pre_announce: bool,
}

#[derive(Clone, Debug, Serialize, Deserialize)]
pub enum Trigger {
    /// crafted datagram from node `from` to node `to` (kind index 0..11), possibly under stale identities
    Datagram { from: u8, to: u8, kind: u8, src_gen_delta: i8, dst_gen_delta: i8, third: u8, probe_no: u8, updates: Vec<Know> },
    Announce { from: u8, to: u8 },
    Gossip { from: u8 },
    Broadcast { from: u8 },
}

#[derive(Clone, Debug, Serialize, Deserialize)]
pub struct C18Case {
    pub codec: CodecKind,
    pub nodes: Vec<NodeSetup>,
    pub trigger: Trigger,
    /// 0 FIFO, 1 LIFO, 2 random
    pub order: u8,
    pub order_seed: u64,
}

fn st(b: u8) -> State {
    match b % 3 {
        0 => State::Alive,
        1 => State::Suspect,
        _ => State::Down,
    }
}

fn shifted(id: Id, d: i8) -> Id {
    Id::new(id.addr, (id.gen as i32 + d as i32).max(0) as u16)
}

pub fn exec(c: &C18Case, out: &mut CaseOut) -> Result<(), Fail> {
    let k = c.nodes.len();
    let mut insts: Vec<Inst> = c
        .nodes
        .iter()
        .enumerate()
        .map(|(i, s)| {
            Inst::new(
                Id::with_renew(i as u16, s.gen as u16, s.renew),
                CfgSpec {
                    notify_down: s.notify_down,
                    max_tx: s.max_tx.clamp(1, 5),
                    num_indirect: s.num_indirect.clamp(1, 3),
                    max_packet: if s.packet == 0 { 1400 } else { s.packet as u32 },
                    ..CfgSpec::default()
                },
                c.codec,
                s.rng_seed,
                HandlerSpec::SIMPLE,
            )
        })
        .collect();
    let ids0: Vec<Id> = insts.iter().map(|i| *i.foca.identity()).collect();
    let mut suspects = 0usize;
    let mut mutual_down = vec![vec![false; k]; k];
    // mutual knowledge through real calls (effects of these calls are discarded: they are not part of the cascade)
    for (i, s) in c.nodes.iter().enumerate() {
        if s.own_inc > 0 {
            insts[i].raw_call(&Call::ApplyMany(vec![Member::new(ids0[i], s.own_inc - 1, State::Suspect)], false));
        }
        if s.mesh {
            let all: Vec<Member<Id>> = (0..k).filter(|j| *j != i).map(|j| Member::new(ids0[j], 0, State::Alive)).collect();
            insts[i].raw_call(&Call::ApplyMany(all, false));
        }
        for kn in &s.knows {
            let j = (kn.about as usize) % k;
            if j == i {
                continue;
            }
            let m = Member::new(shifted(ids0[j], kn.gen_delta), kn.inc, st(kn.state));
            if st(kn.state) == State::Suspect {
                suspects += 1;
            }
            if st(kn.state) == State::Down && kn.gen_delta >= 0 {
                mutual_down[i][j] = true;
            }
            let (r, _, _, _) = insts[i].raw_call(&Call::ApplyMany(vec![m], kn.broadcast));
            if let Res::Panic(m) = r {
                return Err(Fail::new("panic", m));
            }
        }
        for (a, stt) in &s.third {
            let m = Member::new(Id::new(10 + *a as u16, 0), 0, st(*stt));
            insts[i].raw_call(&Call::ApplyMany(vec![m], true));
        }
        for a in 0..s.crowd {
            insts[i].raw_call(&Call::ApplyMany(vec![Member::new(Id::new(20 + a as u16, 0), 0, State::Alive)], false));
        }
        for n in 0..s.items {
            insts[i].raw_call(&Call::AddBroadcast(vec![n, 1, 7, 7]));
        }
        if s.pre_announce && k > 1 {
            let from = ids0[(i + 1) % k];
            let h = Header { src: from, src_incarnation: 0, dst: *insts[i].foca.identity(), message: Message::Announce };
            insts[i].raw_call(&Call::Data(wire::build(c.codec, &h, None, &[])));
        }
        if s.leave {
            insts[i].raw_call(&Call::Leave);
        }
    }
    let has_mutual_down = (0..k).any(|i| (0..k).any(|j| i != j && mutual_down[i][j] && mutual_down[j][i]));
    // the trigger
    let mut net: Vec<(Id, Vec<u8>, usize)> = Vec::new();
    let mut trace: Vec<(String, u16, u16)> = Vec::new();
    let absorb = |evs: Vec<Ev>, from: usize, net: &mut Vec<(Id, Vec<u8>, usize)>| -> usize {
        let mut n = 0;
        for e in evs {
            if let Ev::Send { to, bytes } = e {
                n += 1;
                net.push((to, bytes, from));
            }
        }
        n
    };
    match &c.trigger {
        Trigger::Datagram { from, to, kind, src_gen_delta, dst_gen_delta, third, probe_no, updates } => {
            let f = (*from as usize) % k;
            let mut t = (*to as usize) % k;
            if t == f {
                t = (t + 1) % k;
            }
            let src = shifted(*insts[f].foca.identity(), *src_gen_delta);
            let dst = shifted(*insts[t].foca.identity(), *dst_gen_delta);
            let other = if k > 2 { *insts[(0..k).find(|x| *x != f && *x != t).unwrap()].foca.identity() } else { Id::new(10 + *third as u16, 0) };
            let n = *probe_no;
            let message = match kind % 11 {
                0 => Message::Ping(n),
                1 => Message::Ack(n),
                2 => Message::PingReq { target: other, probe_number: n },
                3 => Message::IndirectPing { origin: other, probe_number: n },
                4 => Message::IndirectAck { target: other, probe_number: n },
                5 => Message::ForwardedAck { origin: other, probe_number: n },
                6 => Message::Announce,
                7 => Message::Feed,
                8 => Message::Gossip,
                9 => Message::Broadcast,
                _ => Message::TurnUndead,
            };
            let members: Option<Vec<Member<Id>>> = if wire::piggybacks(&message) {
                Some(
                    updates
                        .iter()
                        .map(|u| {
                            if st(u.state) == State::Suspect {
                                suspects += 1;
                            }
                            Member::new(shifted(*insts[(u.about as usize) % k].foca.identity(), u.gen_delta), u.inc, st(u.state))
                        })
                        .collect(),
                )
            } else {
                None
            };
            let h = Header { src, src_incarnation: 0, dst, message };
            net.push((dst, wire::build(c.codec, &h, members.as_deref(), &[]), f));
        }
        Trigger::Announce { from, to } => {
            let f = (*from as usize) % k;
            let mut t = (*to as usize) % k;
            if t == f {
                t = (t + 1) % k;
            }
            let dst = *insts[t].foca.identity();
            let (_, evs, _, _) = insts[f].raw_call(&Call::Announce(dst));
            absorb(evs, f, &mut net);
        }
        Trigger::Gossip { from } => {
            let f = (*from as usize) % k;
            let (_, evs, _, _) = insts[f].raw_call(&Call::Gossip);
            absorb(evs, f, &mut net);
        }
        Trigger::Broadcast { from } => {
            let f = (*from as usize) % k;
            let (_, evs, _, _) = insts[f].raw_call(&Call::Broadcast);
            absorb(evs, f, &mut net);
        }
    }
    // budget derived from the case itself
    let fmax = c.nodes.iter().map(|s| s.num_indirect.clamp(1, 3) as usize).max().unwrap_or(1);
    let txmax = c.nodes.iter().map(|s| s.max_tx.clamp(1, 5) as usize).max().unwrap_or(1);
    let budget = 64 + 4 * (2 * fmax + 2) * k * txmax * (suspects + 1);
    let mut rng = SmallRng::seed_from_u64(c.order_seed);
    let mut deliveries = 0usize;
    let mut max_fanout = 0usize;
    while !net.is_empty() {
        let idx = match c.order % 3 {
            0 => 0,
            1 => net.len() - 1,
            _ => rng.random_range(0..net.len()),
        };
        let (to, bytes, from) = net.remove(idx);
        let Some(node) = (0..k).find(|i| i as &usize == &(to.addr as usize)) else { continue };
        deliveries += 1;
        let parsed = wire::parse(&bytes, c.codec).ok();
        let kind = parsed.as_ref().map(|d| wire::kind_name(&d.header.message)).unwrap_or("unparseable");
        trace.push((kind.to_string(), from as u16, to.addr));
        let about_receiver = parsed.as_ref().and_then(|d| d.members.as_ref()).map(|ms| ms.iter().filter(|m| m.id().addr == to.addr).count()).unwrap_or(0);
        let (res, evs, _, _) = insts[node].raw_call(&Call::Data(bytes));
        if let Res::Panic(m) = res {
            return Err(Fail::new("panic", m));
        }
        let f = insts[node].cfg.num_indirect as usize;
        let fan = absorb(evs, node, &mut net);
        max_fanout = max_fanout.max(fan);
        // what one datagram can legitimately cause: one direct reply / relay (Ack, Feed, IndirectPing,
        // IndirectAck, ForwardedAck, TurnUndead), plus one gossip round (num_indirect_probes datagrams) per
        // update about the receiver's own address (suspicion: refutation gossip; Down: renewal gossip), plus
        // one gossip round when the datagram is a TurnUndead (renewal)
        let tu = usize::from(kind == "TurnUndead");
        if fan > (about_receiver + tu) * f + 1 {
            return Err(Fail::new(
                "C18:fan-out",
                format!("delivering one {kind} to node{node} caused {fan} new datagrams, more than one reply plus one gossip round per update about the receiver (num_indirect_probes {f}, {about_receiver} updates about the receiver's address)"),
            ));
        }
        if deliveries > budget {
            let tail: Vec<&(String, u16, u16)> = trace.iter().rev().take(12).collect();
            let all_tu = trace.iter().rev().take(40).all(|t| t.0 == "TurnUndead");
            return Err(Fail::new(
                if all_tu { "C18:turnundead-ping-pong" } else { "C18:storm" },
                format!(
                    "with timers held, a single trigger ({:?}) caused more than {budget} deliveries and the exchange has not stopped; last deliveries (kind, from node, to addr), newest first: {:?}\n identities: {:?}",
                    c.trigger,
                    tail,
                    insts.iter().map(|i| (i.foca.identity().to_string(), i.foca.verif_snapshot().connection_state)).collect::<Vec<_>>()
                ),
            ));
        }
    }
    out.sub_evaluations += deliveries as u64;
    out.max("cascade_length", deliveries as u64);
    out.max("fan_out_per_delivery", max_fanout as u64);
    if has_mutual_down {
        out.class("mutual_down_pair");
    }
    if deliveries >= 3 {
        out.class("cascade_of_3_or_more");
    }
    if deliveries >= 3 || has_mutual_down {
        let kinds: std::collections::BTreeSet<&str> = trace.iter().map(|t| t.0.as_str()).collect();
        out.nontrivial((k, deliveries.min(20), has_mutual_down, kinds, c.order % 3));
    }
    if out.want_sample {
        out.sample = Some(json!({"case": c, "deliveries": trace}));
    }
    Ok(())
}

pub struct CascadePart;
impl Part for CascadePart {
    type Case = C18Case;
    fn name(&self) -> &'static str {
        "cascades"
    }
    fn strategy(&self, _t: Tier) -> BoxedStrategy<C18Case> {
        let know = (0..3u8, -1..2i8, prop_oneof![0..3u16, Just(u16::MAX)], 0..3u8, any::<bool>()).prop_map(|(about, gen_delta, inc, state, broadcast)| Know { about, gen_delta, inc, state, broadcast });
        let node = (
            (0..3u8, 0..RENEW_MODES, any::<bool>(), 1..6u8, 1..4u8, any::<u64>()),
            proptest::collection::vec(know.clone(), 0..5),
            proptest::collection::vec((0..3u8, 0..3u8), 0..3),
            prop_oneof![5 => Just(false), 1 => Just(true)],
            0..3u8,
            prop_oneof![3 => Just(true), 1 => Just(false)],
            prop_oneof![4 => Just(0u16), 3 => 1..4u16, 1 => Just(u16::MAX - 1), 1 => Just(u16::MAX)],
            (prop_oneof![3 => Just(0u16), 1 => 30..120u16], prop_oneof![2 => Just(0u8), 1 => 1..13u8], prop_oneof![2 => Just(false), 1 => Just(true)]),
        )
            .prop_map(|((gen, renew, notify_down, max_tx, num_indirect, rng_seed), knows, third, leave, items, mesh, own_inc, (packet, crowd, pre_announce))| NodeSetup { gen: gen + 1, renew, notify_down, max_tx, num_indirect, rng_seed, knows, third, leave, items, mesh, own_inc, packet, crowd, pre_announce });
        let trigger = prop_oneof![
            12 => (0..3u8, 0..3u8, 0..11u8, prop_oneof![6 => Just(0i8), 1 => Just(-1i8), 1 => Just(1i8)], prop_oneof![8 => Just(0i8), 1 => Just(-1i8), 1 => Just(1i8)], 0..3u8, any::<u8>(), proptest::collection::vec(know, 0..4))
                .prop_map(|(from, to, kind, src_gen_delta, dst_gen_delta, third, probe_no, updates)| Trigger::Datagram { from, to, kind, src_gen_delta, dst_gen_delta, third, probe_no, updates }),
            1 => (0..3u8, 0..3u8).prop_map(|(from, to)| Trigger::Announce { from, to }),
            2 => (0..3u8).prop_map(|from| Trigger::Gossip { from }),
            1 => (0..3u8).prop_map(|from| Trigger::Broadcast { from }),
        ];
        (prop_oneof![Just(CodecKind::Fix), Just(CodecKind::Var)], proptest::collection::vec(node, 2..4), trigger, 0..3u8, any::<u64>())
            .prop_map(|(codec, nodes, trigger, order, order_seed)| C18Case { codec, nodes, trigger, order, order_seed })
            .boxed()
    }
    fn cases(&self, tier: Tier) -> u64 {
        tier.pick(6_000_000, 60_000_000)
    }
    fn exec(&self, c: &C18Case, out: &mut CaseOut) -> Result<(), Fail> {
        exec(c, out)
    }
}

pub fn run(ctx: &Ctx, report: &mut Report) -> EvidenceMeta {
    ctx.run_part(&CascadePart, report);
    EvidenceMeta {
        level: "exploration",
        rule: "proptest-generated groups of 2..3 real instances put into generated mutual-knowledge states through real calls (each knows each other under its current / an older / a newer identity as Alive, Suspect or Down, at incarnation 0..2 or MAX; each instance itself at incarnation 0, 1..3, MAX-1 or MAX; in a quarter of the cases packets of 30..120 bytes, up to 12 further Alive third-party members and an Announce handled during the set-up, so that a Feed was truncated and selections ended early before the trigger; third-party members; pending updates and custom broadcasts; itself active, idle or Defunct via leave_cluster), identities that renew, do not, or renew badly (same / losing identity), notify_down_members on/off per instance, max_transmissions 1..5, fan-out 1..3; then ONE trigger (a datagram of any of the 11 kinds between two of them, possibly under stale identities and with updates about the participants, or announce / gossip / broadcast) and, with all timers held, a generated delivery order (FIFO, LIFO, random) of everything that results, fed back until the network is empty. Oracle: every delivery causes at most (u+2)*num_indirect_probes + 2 new datagrams (u = updates about the receiver in that datagram) and the network empties within a budget derived from the case (64 + 4*(2f+2)*k*max_tx*(S+1), S = Suspect entries present at the start); measured cascade lengths are reported. A cascade that exceeds the budget is reported with the repeating tail. Non-trivial: cascade of >= 3 deliveries or a mutual-Down pair; distinct = (k, length, mutual Down, kinds seen, order)."
            .into(),
        assumptions: vec!["timers are held for the whole cascade (the statement's premise); datagrams to addresses outside the group are dropped".into()],
    }
}

pub fn replay(part_name: &str, case: &Value) -> Option<Result<(), Fail>> {
    match part_name {
        "cascades" => Some(replay_with(&CascadePart, case)),
        _ => None,
    }
}
