//! C05 — Auto-rejoin: a healed partition converges back without hand-holding.
use crate::cluster::*;
use crate::engine::*;
use crate::ensure;
use crate::ident::*;
use crate::sim::*;
use foca::{Identity, OwnedNotification as N};
use proptest::prelude::*;
use serde::{Deserialize, Serialize};
use serde_json::{json, Value};
use std::collections::BTreeSet;

#[derive(Clone, Debug, Serialize, Deserialize)]
pub struct C05Case {
    pub spec: ClusterSpec,
    /// raw selectors for side A (mapped to a set of size 1..=n/2)
    pub side: Vec<u16>,
    /// true: only traffic *towards* one member is cut (asymmetric false death)
    pub asymmetric: bool,
    /// extra delay (ms) between "mutually Down" and healing
    pub heal_delay_ms: u32,
    /// how many times the same partition is applied and healed (1 or 2)
    #[serde(default)]
    pub cycles: u8,
    /// two-cycle cases only: remove_down_after is finite (but longer than any admissible cycle, see the
    /// strategy) and the second partition starts so that the first cycle's forget-timers fire this many
    /// ms after it started, i.e. while the second cycle's Down records are what the healing depends on
    #[serde(default)]
    pub forget_offset_ms: Option<u32>,
}

fn no_trouble(sim: &Sim, info: &StepInfo) -> Result<(), Fail> {
    panic_or_err(sim, info, "C05", true)
}

fn side_a(c: &C05Case) -> BTreeSet<usize> {
    let n = c.spec.n as usize;
    let want = if c.asymmetric { 1 } else { (c.side.len().max(1)).min(n / 2) };
    let mut s = BTreeSet::new();
    for raw in &c.side {
        if s.len() >= want {
            break;
        }
        s.insert(((*raw as usize) * n) >> 16);
    }
    let mut i = 0;
    while s.len() < want {
        s.insert(i);
        i += 1;
    }
    s
}

pub fn exec(c: &C05Case, out: &mut CaseOut) -> Result<(), Fail> {
    let spec = &c.spec;
    let n = spec.n as usize;
    let period = spec.period_us();
    let (mut sim, t_done) = form(spec, no_trouble)?;
    // settle
    let mut t = t_done + period;
    let limit = t_done + (6 * n as u64 + 20) * period;
    loop {
        sim.run_until(t, no_trouble)?;
        if sim.fully_converged(true) {
            break;
        }
        if t > limit {
            out.class("discarded_cluster_did_not_form");
            return Ok(());
        }
        t += period;
    }
    let a = side_a(c);
    let b: BTreeSet<usize> = (0..n).filter(|i| !a.contains(i)).collect();
    let old_ids: Vec<Id> = (0..n).map(|i| sim.identity(i)).collect();
    let cycles = c.cycles.clamp(1, 2);
    let mut t_split = sim.now;
    let mut t_heal = sim.now;
    let mut steps_at_heal = sim.steps;
    let mut stale_delivery = false;
    let mut converged_at: Option<u64> = None;
    let ad = spec.cfg.periodic_announce_down.as_ref().map(|p| p.every_ms as u64 * MS).unwrap_or(period);
    let first_split = sim.now;
    for cycle in 0..cycles {
    if let (1, Some(off)) = (cycle, c.forget_offset_ms) {
        // start the second partition `off` ms before the first cycle's forget-timers begin to fire
        let target = (first_split + spec.cfg.remove_down_ms as u64 * MS).saturating_sub(off as u64 * MS);
        if target > sim.now {
            sim.run_until(target, no_trouble)?;
            ensure!(sim.fully_converged(false), "C05:reconvergence-not-stable", "the cluster did not stay converged while idle between two partitions\n{}", sim.describe());
        }
    }
    let ids_at_split: Vec<Id> = (0..n).map(|i| sim.identity(i)).collect();
    // --- partition
    t_split = sim.now;
    if c.asymmetric {
        let victim = *a.iter().next().unwrap();
        sim.block_to = Some(sim.nodes[victim].addr);
    } else {
        sim.partition = Some(a.clone());
    }
    // hold until both sides list the other side Down (asymmetric: until everyone else lists the victim Down)
    let hold_limit = t_split + (4 * n as u64 + 10) * period + 2 * spec.cfg.suspect_to_down_ms as u64 * MS;
    let mutually_down = |sim: &Sim| -> bool {
        let lists_down = |i: usize, j: usize| !sim.active_ids(i).contains(&ids_at_split[j]);
        if c.asymmetric {
            let v = *a.iter().next().unwrap();
            b.iter().all(|i| lists_down(*i, v))
        } else {
            a.iter().all(|i| b.iter().all(|j| lists_down(*i, *j))) && b.iter().all(|i| a.iter().all(|j| lists_down(*i, *j)))
        }
    };
    loop {
        t = sim.now + period;
        sim.run_until(t, no_trouble)?;
        if mutually_down(&sim) {
            break;
        }
        if sim.now > hold_limit {
            out.class("discarded_partition_did_not_produce_mutual_down");
            return Ok(());
        }
    }
    sim.run_until(sim.now + c.heal_delay_ms as u64 * MS, no_trouble)?;
    // --- heal
    sim.partition = None;
    sim.block_to = None;
    t_heal = sim.now;
    steps_at_heal = sim.steps;
    let notes_at_heal = sim.notes.len();
    let _ = notes_at_heal;
    converged_at = None;
    let deadline = t_heal + std::env::var("C05_DEADLINE").ok().and_then(|s| s.parse().ok()).unwrap_or(2 * n as u64 + 6) * ad;
    while sim.now < deadline {
        let until = (sim.now + period).min(deadline);
        let ids_now: Vec<Id> = (0..n).map(|i| sim.identity(i)).collect();
        let res: Result<(), Fail> = sim.run_until(until, |sim, info| {
            no_trouble(sim, info)?;
            // a datagram addressed to an identity its receiver no longer holds
            if let Some(bytes) = &info.delivered_bytes {
                if let Ok(d) = crate::wire::parse(bytes, sim.codec) {
                    if d.header.dst != ids_now[info.node] && d.header.dst.addr == ids_now[info.node].addr {
                        stale_delivery = true;
                    }
                }
            }
            Ok(())
        });
        res?;
        if converged_at.is_none() && sim.fully_converged(false) {
            converged_at = Some(sim.now);
            break;
        }
    }
    // the protocol's own dead end: every instance ended up alone (idle instances run no timers at all,
    // so nothing can ever happen again) - listed known finding, only reachable when no group of two or
    // more members stayed connected
    let all_idle = (0..n).all(|i| sim.nodes[i].inst.foca.num_members() == 0);
    ensure!(
        converged_at.is_some(),
        if all_idle { "C05:cluster-dissolved-all-idle" } else { "C05:not-reconverged" },
        "{} announce-to-down periods after healing a {} partition (sides {:?} / {:?}) some live instance does not list every other live instance under its current identity\n{}",
        2 * n + 6,
        if c.asymmetric { "one-way" } else { "two-sided" },
        a,
        b,
        sim.describe()
    );
    // let the survivors' probes reach everybody once more (an instance that renewed while handling a
    // TurnUndead stays silently disconnected until the next datagram reaches it)
    sim.run_until(sim.now + 2 * n as u64 * period, no_trouble)?;
    ensure!(
        sim.fully_converged(false),
        "C05:reconvergence-not-stable",
        "the cluster re-converged but did not stay converged for 2n more probe periods\n{}",
        sim.describe()
    );
    } // cycles
    // every instance that was told it is down: Rejoin(new) with new winning against old, never Defunct, Active afterwards
    let mut renewed_a = 0;
    let mut renewed_b = 0;
    for i in 0..n {
        let mine: Vec<&NoteRec> = sim.notes.iter().filter(|x| x.node == i).collect();
        ensure!(
            !mine.iter().any(|x| matches!(x.note, N::Defunct)),
            "C05:defunct-instead-of-rejoin",
            "node{} (renewable identity) notified Defunct\n{}",
            i,
            sim.describe()
        );
        let mut cur = old_ids[i];
        let mut last_rejoin: Option<usize> = None;
        for (k, x) in mine.iter().enumerate() {
            if let N::Rejoin(new) = &x.note {
                ensure!(
                    *new != cur && new.win_addr_conflict(&cur),
                    "C05:rejoin-identity-not-winning",
                    "node{} notified Rejoin({}) which does not win against its previous identity {}",
                    i,
                    new,
                    cur
                );
                cur = *new;
                last_rejoin = Some(k);
            }
        }
        ensure!(cur == sim.identity(i), "C05:identity-without-rejoin", "node{} holds {} but its Rejoin notifications end at {}", i, sim.identity(i), cur);
        if let Some(k) = last_rejoin {
            ensure!(
                mine[k + 1..].iter().any(|x| matches!(x.note, N::Active)),
                "C05:no-active-after-rejoin",
                "node{} notified Rejoin({}) but never Active afterwards",
                i,
                cur
            );
            if a.contains(&i) {
                renewed_a += 1;
            } else {
                renewed_b += 1;
            }
        }
    }
    let took = converged_at.unwrap() - t_heal;
    out.sub_evaluations += sim.steps - steps_at_heal;
    out.max("reconvergence_in_announce_to_down_periods_x10", took * 10 / ad);
    out.max("reconvergence_percent_of_bound", took * 100 / ((2 * n as u64 + 6) * ad));
    out.class(if c.asymmetric { "asymmetric_false_death" } else { "two_sided_split" });
    if cycles > 1 {
        out.class("two_partition_cycles");
        if c.forget_offset_ms.is_some() {
            out.class("two_cycles_with_first_cycle_forget_timers_firing_in_the_second");
        }
    }
    if renewed_a > 0 && renewed_b > 0 {
        out.class("both_sides_renewed");
    }
    if stale_delivery {
        out.class("datagram_to_superseded_identity_delivered_after_heal");
    }
    if (renewed_a > 0 && renewed_b > 0 && stale_delivery) || (c.asymmetric && renewed_a > 0) {
        out.nontrivial((n, a.len(), c.asymmetric, renewed_a, renewed_b, stale_delivery, spec.cfg.periodic_announce_down.as_ref().map(|p| (p.every_ms / 1000, p.num))));
    }
    if out.want_sample {
        out.sample = Some(json!({"spec": spec, "side_a": a, "asymmetric": c.asymmetric, "split_at_ms": t_split / 1000, "healed_at_ms": t_heal / 1000, "reconverged_after_ms": took / 1000, "identities_after": (0..n).map(|i| sim.identity(i).to_string()).collect::<Vec<_>>()}));
    }
    Ok(())
}

pub struct PartitionPart;
impl Part for PartitionPart {
    type Case = C05Case;
    fn name(&self) -> &'static str {
        "partition-and-heal"
    }
    fn strategy(&self, _tier: Tier) -> BoxedStrategy<C05Case> {
        let mut p = ClusterProfile::default();
        p.n = (3, 10);
        p.max_tx = (3, 10);
        p.renew = vec![RENEW_NEXT];
        p.notify_down = Some(true);
        p.announce_down = Some((3, 8));
        p.join_formation = 1;
        p.inject_formation = 3;
        (cluster_spec(&p), proptest::collection::vec(any::<u16>(), 1..6), prop_oneof![3 => Just(false), 1 => Just(true)], 0..5000u32, prop_oneof![3 => Just(1u8), 1 => Just(2u8)], prop_oneof![1 => Just(None), 1 => (0..30_000u32).prop_map(Some)])
            .prop_map(|(mut spec, side, asymmetric, heal_delay_ms, cycles, forget)| {
                if matches!(spec.formation, Formation::Join { .. }) && spec.cfg.periodic_announce.is_none() {
                    spec.cfg.periodic_announce = Some(crate::inst::Periodic { every_ms: 2000, num: 1 });
                }
                let forget_offset_ms = if cycles == 2 { forget } else { None };
                if forget_offset_ms.is_some() {
                    // a finite remove_down_after that still outlasts any cycle this check admits: the longest
                    // hold (exec's hold_limit), the heal delay, the re-convergence bound and the settling time
                    let n = spec.n as u32;
                    let period = spec.cfg.probe_period_ms;
                    let ad = spec.cfg.periodic_announce_down.as_ref().map(|p| p.every_ms).unwrap_or(period);
                    let hold = (4 * n + 11) * period + 2 * spec.cfg.suspect_to_down_ms;
                    spec.cfg.remove_down_ms = hold + 5_000 + (2 * n + 6) * ad + 2 * n * period + 10 * period;
                }
                C05Case { spec, side, asymmetric, heal_delay_ms, cycles, forget_offset_ms }
            })
            .boxed()
    }
    fn cases(&self, tier: Tier) -> u64 {
        tier.pick(90_000, 1_500_000)
    }
    fn exec(&self, c: &C05Case, out: &mut CaseOut) -> Result<(), Fail> {
        exec(c, out)
    }
    fn max_shrink_iters(&self) -> u32 {
        500
    }
}

pub fn run(ctx: &Ctx, report: &mut Report) -> EvidenceMeta {
    ctx.run_part(&PartitionPart, report);
    EvidenceMeta {
        level: "fault_enumeration",
        rule: "simulated clusters of 3..=10 members with renewable identities, notify_down_members and periodic_announce_to_down_members (1..3 members every 3..8 probe periods) enabled; a generated two-sided split (side sizes 1..n/2, members chosen at random) or the one-way variant (only traffic towards one member is cut) is held until both sides (resp. everyone else) list the other side Down - verified on the instances, otherwise the case is discarded and counted - then healed after a generated delay; in a quarter of the cases the same partition is applied and healed a second time; remove_down_after is either far longer than the run or - in half of the two-cycle cases - finite but longer than the longest cycle this check admits (hold limit + heal delay + re-convergence bound + settling), with the second partition timed so that the first cycle's forget-timers fire 0..30 s into it, while the second cycle's Down records are what healing depends on (a Down record forgotten before the heal cannot be announced to, which is why shorter values are outside the domain); latencies, seeds, fan-out, max_transmissions 3..10 and periodic tasks are generated. Oracle: within (2n+6) announce-to-down periods after healing every live instance's iter_members() equals exactly the current identities of all others; no instance ever notifies Defunct; every Rejoin(new) differs from and wins against the previous identity, the identity held equals the last Rejoin, and an Active follows the last Rejoin. Non-trivial: both sides renewed at least one identity and a datagram addressed to a superseded identity was delivered after healing (or the asymmetric variant with a renewal); distinct = (n, split shape, variant, renewals per side, stale delivery, announce-to-down parameters)."
            .into(),
        assumptions: vec![
            "outside the partition the transport and timers are fault-free".into(),
            "'bounded number of announce-to-down periods' is judged against the explicit deadline (2n+6) periods".into(),
        ],
    }
}

pub fn replay(part_name: &str, case: &Value) -> Option<Result<(), Fail>> {
    match part_name {
        "partition-and-heal" => Some(replay_with(&PartitionPart, case)),
        _ => None,
    }
}
