//! C14 — Round-robin probing: every active member is probed within 2n-1 rounds.
use crate::codec::CodecKind;
use crate::engine::*;
use crate::ensure;
use crate::handler::HandlerSpec;
use crate::ident::*;
use crate::inst::*;
use crate::rt::{sends, timers};
use foca::{Header, Member, Message, State, Timer};
use proptest::prelude::*;
use serde::{Deserialize, Serialize};
use serde_json::{json, Value};

#[derive(Clone, Debug, Serialize, Deserialize)]
pub enum Pre {
    /// one complete, successful probe round
    Round,
    /// a new active member joins
    Join,
    /// a new member is learned as Down
    JoinDown,
    /// the k-th active member is declared Down by gossip
    Kill(u16),
    /// the forget-timer of the k-th Down record fires
    Forget(u16),
    /// a probe round whose target never answers (it becomes Suspect, stays active)
    FailedRound,
    /// the instance is told about another generation of its own address (older or newer, Alive or
    /// Suspect): such a record is never an active member, hence never a probe target
    OwnAddress { newer: bool, suspect: bool },
}

#[derive(Clone, Debug, Serialize, Deserialize)]
pub struct Layout {
    /// insertion order: true = active member, false = Down record
    pub insert: Vec<bool>,
    pub rng_seed: u64,
    pub prefix: Vec<Pre>,
    pub codec: CodecKind,
    /// gossip() calls made between two probe rounds of the stable phase (other traffic of the same
    /// instance must not disturb the rotation)
    #[serde(default)]
    pub chatter: u8,
}

struct Sim {
    inst: Inst,
    next_addr: u16,
    probe_timer: Option<Timer<Id>>,
    indirect_timer: Option<Timer<Id>>,
    forget: Vec<Timer<Id>>,
}

impl Sim {
    fn absorb(&mut self, rec: &CallRec) {
        for (t, _) in timers(&rec.evs) {
            match t {
                Timer::ProbeRandomMember(_) => self.probe_timer = Some(t.clone()),
                Timer::SendIndirectProbe { .. } => self.indirect_timer = Some(t.clone()),
                Timer::RemoveDown(_) => self.forget.push(t.clone()),
                _ => {}
            }
        }
    }
    fn call(&mut self, c: Call) -> Result<CallRec, Fail> {
        let rec = self.inst.call(c);
        if let Res::Panic(m) = &rec.res {
            return Err(Fail::new("panic", format!("Foca panicked: {m}")));
        }
        self.absorb(&rec);
        Ok(rec)
    }
    fn add(&mut self, active: bool) -> Result<(), Fail> {
        let id = Id::new(self.next_addr, 0);
        self.next_addr += 1;
        self.call(Call::ApplyMany(vec![Member::new(id, 0, if active { State::Alive } else { State::Down })], false))?;
        Ok(())
    }
    /// Runs one probe round. Returns the Ping destination (None if the instance is not probing).
    fn round(&mut self, answer: bool) -> Result<Option<Id>, Fail> {
        let Some(t) = self.probe_timer.take() else { return Ok(None) };
        let before = self.inst.view();
        let rec = self.call(Call::Timer(t))?;
        if before.conn() != 1 {
            return Ok(None);
        }
        ensure!(rec.res.is_ok(), "C14:probe-timer-error", "ProbeRandomMember returned {:?}", rec.res);
        let codec = self.inst.codec;
        let pings: Vec<(Id, u8)> = sends(&rec.evs)
            .filter_map(|(to, b)| match crate::wire::parse(b, codec).ok()?.header.message {
                Message::Ping(n) => Some((*to, n)),
                _ => None,
            })
            .collect();
        ensure!(pings.len() == 1, "C14:not-exactly-one-ping", "a probe round with {} active members sent {} Pings ({:?})", before.num_members, pings.len(), pings);
        let (to, n) = pings[0];
        ensure!(sends(&rec.evs).count() == 1, "C14:extra-datagram", "probe round sent more than the Ping: {:?}", rec.evs);
        let own = before.identity;
        ensure!(to != own && to.addr != own.addr, "C14:pinged-itself", "the instance pinged itself ({to})");
        match before.record_of(&to) {
            Some(m) => ensure!(m.state() != State::Down, "C14:pinged-down-member", "Ping sent to {to} which is recorded Down"),
            None => return Err(Fail::new("C14:pinged-unknown", format!("Ping sent to {to} which is not a known member"))),
        }
        if answer {
            let inc = before.record_of(&to).map(|m| m.incarnation()).unwrap_or(0);
            let h = Header { src: to, src_incarnation: inc, dst: own, message: Message::Ack(n) };
            let bytes = crate::wire::build(codec, &h, Some(&[]), &[]);
            let r = self.call(Call::Data(bytes))?;
            ensure!(r.res.is_ok(), "C14:ack-rejected", "a correct Ack was rejected: {:?}", r.res);
        }
        if let Some(t) = self.indirect_timer.take() {
            self.call(Call::Timer(t))?;
        }
        Ok(Some(to))
    }
}

pub fn exec_layout(l: &Layout, out: &mut CaseOut) -> Result<(), Fail> {
    let cfg = CfgSpec { num_indirect: 1, max_tx: 1, remove_down_ms: 1000, ..CfgSpec::default() };
    let mut s = Sim {
        inst: Inst::new(Id::new(0, 1), cfg, l.codec, l.rng_seed, HandlerSpec::OFF),
        next_addr: 1,
        probe_timer: None,
        indirect_timer: None,
        forget: Vec::new(),
    };
    for a in &l.insert {
        s.add(*a)?;
    }
    for p in &l.prefix {
        match p {
            Pre::Round => {
                s.round(true)?;
            }
            Pre::FailedRound => {
                s.round(false)?;
            }
            Pre::OwnAddress { newer, suspect } => {
                // the instance itself is generation 1 so that an older one exists
                let own = *s.inst.foca.identity();
                let other = Id::new(own.addr, if *newer { own.gen + 1 } else { own.gen.saturating_sub(1) });
                if other != own {
                    s.call(Call::ApplyMany(vec![Member::new(other, 0, if *suspect { State::Suspect } else { State::Alive })], false))?;
                }
            }
            Pre::Join => s.add(true)?,
            Pre::JoinDown => s.add(false)?,
            Pre::Kill(k) => {
                let act: Vec<Id> = s.inst.foca.iter_members().map(|m| *m.id()).collect();
                if act.len() > 1 {
                    let v = act[((*k as usize) * act.len()) >> 16];
                    s.call(Call::ApplyMany(vec![Member::new(v, 0, State::Down)], false))?;
                }
            }
            Pre::Forget(k) => {
                if !s.forget.is_empty() {
                    let i = ((*k as usize) * s.forget.len()) >> 16;
                    let t = s.forget.remove(i);
                    let mut before: Vec<Id> = s.inst.foca.iter_members().map(|m| *m.id()).collect();
                    s.call(Call::Timer(t.clone()))?;
                    let mut after: Vec<Id> = s.inst.foca.iter_members().map(|m| *m.id()).collect();
                    before.sort();
                    after.sort();
                    // forgetting a Down record must leave the probe rotation's members alone
                    ensure!(
                        before == after,
                        "C14:forget-timer-changed-active-members",
                        "firing {:?} changed the active members (and so who gets probed) from {:?} to {:?}",
                        t,
                        before,
                        after
                    );
                }
            }
        }
    }
    // stable phase
    let view = s.inst.view();
    let active: Vec<Id> = view.active.clone();
    let n = active.len();
    let d = view.state.len() - n;
    if n == 0 || view.conn() != 1 {
        out.class("no_active_members_after_prefix");
        return Ok(());
    }
    let rounds = 6 * n + 4;
    let mut targets: Vec<Id> = Vec::with_capacity(rounds);
    let mut wraps_with_down_edge = 0u32;
    let mut last_pos: Option<usize> = None;
    for _ in 0..rounds {
        let before = s.inst.view();
        let Some(t) = s.round(true)? else {
            return Err(Fail::new("C14:probing-stopped", "the instance stopped probing although members are active".to_string()));
        };
        for _ in 0..l.chatter {
            s.call(Call::Gossip)?;
        }
        ensure!(active.contains(&t), "C14:pinged-non-member", "Ping sent to {t} which is not one of the stable active members {:?}", active);
        let after = s.inst.view();
        ensure!(after.active == active, "C14:membership-not-stable", "answered probe round changed the active set: {:?} -> {:?}", active, after.active);
        // classification: did the cursor wrap while a Down record sits at an edge of the vector?
        let pos = before.state.iter().position(|m| *m.id() == t);
        if let (Some(p), Some(lp)) = (pos, last_pos) {
            let edge_down = before.state.first().map(|m| m.state() == State::Down).unwrap_or(false)
                || before.state.last().map(|m| m.state() == State::Down).unwrap_or(false);
            if p <= lp && edge_down {
                wraps_with_down_edge += 1;
            }
        }
        last_pos = after.state.iter().position(|m| *m.id() == t);
        targets.push(t);
    }
    let w = 2 * n - 1;
    for start in 0..=(targets.len() - w) {
        let win = &targets[start..start + w];
        for a in &active {
            ensure!(
                win.contains(a),
                "C14:member-starved",
                "with n={n} active members and {d} Down records, rounds {start}..{} ({} = 2n-1 consecutive rounds) never pinged {a}: targets {:?}",
                start + w,
                w,
                win
            );
        }
    }
    out.sub_evaluations += rounds as u64;
    out.max("active_members", n as u64);
    if d >= 1 {
        out.class("has_down_records");
    }
    if d >= 1 && wraps_with_down_edge > 0 {
        out.class("wrap_around_with_down_at_edge");
        out.nontrivial((n, d, wraps_with_down_edge.min(8), l.rng_seed % 64, l.prefix.len().min(6)));
    }
    if out.want_sample {
        out.sample = Some(json!({"layout": l, "n": n, "down": d, "targets": targets.iter().map(|t| t.to_string()).collect::<Vec<_>>()}));
    }
    Ok(())
}

pub struct LayoutPart;
impl Part for LayoutPart {
    type Case = Layout;
    fn name(&self) -> &'static str {
        "layouts"
    }
    fn strategy(&self, tier: Tier) -> BoxedStrategy<Layout> {
        let maxn = tier.pick(12usize, 20usize);
        let pre = prop_oneof![
            5 => Just(Pre::Round),
            1 => Just(Pre::FailedRound),
            2 => Just(Pre::Join),
            1 => Just(Pre::JoinDown),
            2 => any::<u16>().prop_map(Pre::Kill),
            1 => any::<u16>().prop_map(Pre::Forget),
            1 => (any::<bool>(), any::<bool>()).prop_map(|(newer, suspect)| Pre::OwnAddress { newer, suspect }),
        ];
        (
            proptest::collection::vec(prop_oneof![3 => Just(true), 2 => Just(false)], 1..maxn + 8),
            any::<u64>(),
            proptest::collection::vec(pre, 0..24),
            prop_oneof![Just(CodecKind::Fix), Just(CodecKind::Var)],
            prop_oneof![3 => Just(0u8), 1 => Just(1u8), 1 => 2..4u8],
        )
            .prop_map(move |(mut insert, rng_seed, prefix, codec, chatter)| {
                // bound the numbers: at most maxn active, 8 down
                let (mut a, mut d) = (0, 0);
                insert.retain(|x| {
                    if *x {
                        a += 1;
                        a <= maxn
                    } else {
                        d += 1;
                        d <= 8
                    }
                });
                if !insert.contains(&true) {
                    insert.push(true);
                }
                Layout { insert, rng_seed, prefix, codec, chatter }
            })
            .boxed()
    }
    fn cases(&self, tier: Tier) -> u64 {
        tier.pick(600_000, 3_000_000)
    }
    fn exec(&self, c: &Layout, out: &mut CaseOut) -> Result<(), Fail> {
        exec_layout(c, out)
    }
}

/// Small layouts enumerated completely: every insertion pattern with n+d <= 5, 256 seeds, 0..=3 warm-up rounds.
fn small_layouts() -> Vec<Layout> {
    let mut v = Vec::new();
    for len in 1..=5usize {
        for mask in 0..(1u32 << len) {
            let insert: Vec<bool> = (0..len).map(|i| mask & (1 << i) != 0).collect();
            if !insert.contains(&true) {
                continue;
            }
            for warm in 0..=3usize {
                v.push(Layout { insert: insert.clone(), rng_seed: 0, prefix: vec![Pre::Round; warm], codec: CodecKind::Fix, chatter: 0 });
            }
        }
    }
    v
}

pub fn run(ctx: &Ctx, report: &mut Report) -> EvidenceMeta {
    let base = small_layouts();
    let seeds = 256u64;
    let total = base.len() as u64 * seeds;
    ctx.run_enum(
        "small-layouts-all-seeds",
        total,
        |i| {
            let mut l = base[(i / seeds) as usize].clone();
            l.rng_seed = i % seeds;
            l
        },
        exec_layout,
        report,
        true,
    );
    report.extra.insert("small_layouts".into(), json!({"insertion_patterns_x_warmups": base.len(), "rng_seeds": seeds, "note": "every arrangement of active/Down insertions with n+d<=5, each with 0..3 warm-up rounds and RNG seeds 0..255"}));
    ctx.run_part(&LayoutPart, report);
    EvidenceMeta {
        level: "exploration",
        rule: "one instance; members and Down records inserted in a generated order (storage position also depends on the generated RNG seed); a generated prefix of successful/failed probe rounds, joins, members declared Down and forget-timers so that the cursor starts anywhere (a forget-timer must leave the set of active members untouched; updates about older and newer generations of the instance's own address are among the prefix events: they never become probe targets); then 6n+4 probe rounds with the membership held stable (in two fifths of the generated layouts 1..3 gossip() calls are made between consecutive rounds) (every Ping is answered by a correct Ack, suspicion timers never fire). Small spaces (n+d<=5 x 256 seeds x 0..3 warm-up rounds) are enumerated completely, larger ones (n<=12 quick / 20 thorough, d<=8) by proptest. Oracle: exactly one Ping per round, to an active member, never a Down record nor the own address; every window of 2n-1 consecutive rounds pings every active member. Non-trivial: at least one Down record and at least one wrap of the cursor while a Down record sits at the first or last storage position; distinct = (n, d, #such wraps, seed class, prefix length)."
            .into(),
        assumptions: vec!["membership stability is enforced by the harness (correct Acks, no suspicion time-outs)".into()],
    }
}

pub fn replay(part_name: &str, case: &Value) -> Option<Result<(), Fail>> {
    match part_name {
        "layouts" => Some(replay_with(&LayoutPart, case)),
        "small-layouts-all-seeds" => Some((|| {
            let c: Layout = serde_json::from_value(case.clone()).map_err(|e| Fail::new("replay:bad-file", e.to_string()))?;
            exec_layout(&c, &mut CaseOut::default())
        })()),
        _ => None,
    }
}
