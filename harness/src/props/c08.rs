//! C08 — Notifications faithfully mirror membership and connection state.
use crate::codec::CodecKind;
use crate::engine::*;
use crate::{ensure, fail};
use crate::handler::{Handler, HandlerSpec};
use crate::hist::*;
use crate::ident::*;
use crate::inst::*;
use crate::model;
use crate::ops::*;
use crate::rt::{notes, Ev};
use foca::{AccumulatingRuntime, Foca, Identity, Message, OwnedNotification as N, State};
use rand::SeedableRng;
use serde_json::Value;
use std::collections::BTreeSet;

#[derive(Clone, Copy, PartialEq, Eq, Debug, Hash)]
pub enum Conn {
    Idle,
    Active,
    Defunct,
}

pub struct Mon {
    codec: CodecKind,
    mirror: BTreeSet<Id>,
    conn: Conn,
    // classification
    note_trace: Vec<u8>,
    saw_rename_with_liveness: bool,
    cycles: u32,
    last_conn_notes: Vec<u8>,
    defunct_then_recover: bool,
    was_defunct: bool,
    calls: u64,
}

impl Mon {
    pub fn new(codec: CodecKind) -> Self {
        Mon {
            codec,
            mirror: BTreeSet::new(),
            conn: Conn::Idle,
            note_trace: Vec::new(),
            saw_rename_with_liveness: false,
            cycles: 0,
            last_conn_notes: Vec::new(),
            defunct_then_recover: false,
            was_defunct: false,
            calls: 0,
        }
    }
}

/// Did the call deliver (and process) a suspicion about the current identity that can no longer be
/// refuted, i.e. a suspicion at an incarnation not lower than the own one and equal to Incarnation::MAX?
fn unrefutable_suspicion_processed(rec: &CallRec, codec: CodecKind, max_packet: usize) -> bool {
    let d = model::delivered(rec, max_packet, codec);
    if !d.processed {
        return false;
    }
    let mut own = rec.before.snap.incarnation;
    for u in &d.updates {
        if *u.id() != rec.before.identity {
            continue;
        }
        match u.state() {
            State::Down => return false, // handled by the Down clause
            State::Suspect => {
                // a suspicion below the own incarnation is stale: it has been refuted already
                if u.incarnation() >= own {
                    if u.incarnation() == u16::MAX {
                        return true;
                    }
                    own = u.incarnation() + 1;
                }
            }
            State::Alive => {}
        }
    }
    false
}

/// Does this call justify a Defunct / Rejoin notification? (statement clause (i)-(iii))
fn self_death_trigger(rec: &CallRec, codec: CodecKind, max_packet: usize) -> bool {
    if matches!(rec.call, Call::Leave) {
        return true;
    }
    let chain = identity_chain(rec);
    let d = model::delivered(rec, max_packet, codec);
    if matches!(d.message, Some(Message::TurnUndead)) && d.class.as_ref().map(|c| c.accepted()).unwrap_or(false) {
        return true;
    }
    // simulate the own incarnation along the delivered updates (statement: "can no longer refute")
    let mut own = rec.before.snap.incarnation;
    for u in &d.updates {
        // an update about an identity the instance holds/held during this call
        if chain.contains(u.id()) {
            match u.state() {
                State::Down => return true,
                State::Suspect => {
                    if u.incarnation() >= own {
                        if u.incarnation() == u16::MAX {
                            return true;
                        }
                        own = u.incarnation() + 1;
                    }
                }
                State::Alive => {}
            }
        }
    }
    false
}

impl Monitor for Mon {
    fn on_call(&mut self, rec: &CallRec, _o: &Origin, runner: &Runner) -> Result<(), Fail> {
        self.calls += 1;
        let conn_before = self.conn;
        let max_packet = rec_cfg_packet(runner, rec);
        let mut conn_notes_in_call: Vec<&N<Id>> = Vec::new();
        let mut rename_addrs: Vec<u16> = Vec::new();
        let mut liveness_addrs: Vec<u16> = Vec::new();
        let mut cur_identity = rec.before.identity;
        for n in notes(&rec.evs) {
            match n {
                N::MemberUp(x) => {
                    self.note_trace.push(1);
                    liveness_addrs.push(x.addr);
                    ensure!(self.mirror.insert(*x), "C08:memberup-already-up", "MemberUp({x}) notified but the mirror already lists it as up");
                }
                N::MemberDown(x) => {
                    self.note_trace.push(2);
                    liveness_addrs.push(x.addr);
                    ensure!(self.mirror.remove(x), "C08:memberdown-not-up", "MemberDown({x}) notified but the mirror does not list it as up");
                }
                N::Rename(a, b) => {
                    self.note_trace.push(3);
                    rename_addrs.push(a.addr);
                    ensure!(a.addr == b.addr, "C08:rename-different-address", "Rename({a},{b}) across addresses");
                    ensure!(b.win_addr_conflict(a), "C08:rename-not-winning", "Rename({a},{b}) but {b} does not win the address conflict against {a}");
                    if self.mirror.remove(a) {
                        self.mirror.insert(*b);
                    }
                }
                N::Active => {
                    self.note_trace.push(4);
                    ensure!(self.conn == Conn::Idle, "C08:active-not-from-idle", "Active notified while the connection machine is {:?}", self.conn);
                    self.conn = Conn::Active;
                    conn_notes_in_call.push(n);
                }
                N::Idle => {
                    self.note_trace.push(5);
                    ensure!(self.conn == Conn::Active, "C08:idle-not-from-active", "Idle notified while the connection machine is {:?}", self.conn);
                    self.conn = Conn::Idle;
                    conn_notes_in_call.push(n);
                }
                N::Defunct => {
                    self.note_trace.push(6);
                    self.conn = Conn::Defunct;
                    self.was_defunct = true;
                    conn_notes_in_call.push(n);
                }
                N::Rejoin(x) => {
                    self.note_trace.push(7);
                    ensure!(
                        *x != cur_identity && x.win_addr_conflict(&cur_identity),
                        "C08:rejoin-not-winning",
                        "Rejoin({x}) does not differ from / win against the previous identity {cur_identity}"
                    );
                    if self.was_defunct {
                        self.defunct_then_recover = true;
                    }
                    cur_identity = *x;
                    self.conn = Conn::Idle;
                    conn_notes_in_call.push(n);
                }
            }
        }
        // silent transitions
        match (&rec.call, rec.res.is_ok()) {
            (Call::ChangeIdentity(x), true) => {
                cur_identity = *x;
                self.conn = Conn::Idle;
                if self.was_defunct {
                    self.defunct_then_recover = true;
                }
            }
            (Call::ReuseDown, true) => {
                self.conn = Conn::Idle;
                self.defunct_then_recover = true;
            }
            _ => {}
        }
        // Rejoin(x) iff the identity changed to x in that call
        ensure!(
            cur_identity == rec.after.identity,
            "C08:identity-change-without-rejoin",
            "identity() is {} after the call but notifications (Rejoin / change_identity) imply {}",
            rec.after.identity,
            cur_identity
        );
        // mirror == iter_members()
        let real: BTreeSet<Id> = rec.after.active.iter().copied().collect();
        ensure!(
            real == self.mirror,
            "C08:mirror-mismatch",
            "replaying MemberUp/MemberDown/Rename gives {:?} but iter_members() is {:?}",
            self.mirror,
            real
        );
        ensure!(
            rec.after.num_members == real.len(),
            "C08:num-members",
            "num_members()={} but iter_members() yields {}",
            rec.after.num_members,
            real.len()
        );
        // connection machine vs membership
        if self.conn == Conn::Active {
            ensure!(
                rec.after.num_members > 0,
                "C08:active-without-members",
                "connection machine is active after the call but num_members()==0 and no Idle/Defunct/Rejoin was notified"
            );
        }
        if let Some(N::Idle) = conn_notes_in_call.last() {
            ensure!(rec.after.num_members == 0, "C08:idle-with-members", "Idle notified but num_members()={}", rec.after.num_members);
        }
        if let Some(N::Active) = conn_notes_in_call.last() {
            ensure!(rec.after.num_members > 0, "C08:active-without-members", "Active notified but num_members()==0");
        }
        // hook cross-check of the machine
        let hook_conn = match rec.after.conn() {
            0 => Conn::Idle,
            1 => Conn::Active,
            _ => Conn::Defunct,
        };
        ensure!(
            hook_conn == self.conn,
            "C08:machine-vs-internal-state",
            "notification-derived connection state {:?} but the instance's internal state is {:?}",
            self.conn,
            hook_conn
        );
        // Defunct / Rejoin only when justified
        let died = conn_notes_in_call.iter().any(|n| matches!(n, N::Defunct | N::Rejoin(_)));
        if died {
            ensure!(
                self_death_trigger(rec, self.codec, max_packet),
                "C08:defunct-or-rejoin-without-cause",
                "Defunct/Rejoin notified in a call that delivered no Down/TurnUndead/unrefutable Suspect about the current identity and is not leave_cluster"
            );
        }
        // ... and whenever it learns its own identity is Down (processed), it must say so
        let d = model::delivered(rec, max_packet, self.codec);
        let processed_self_down = d.processed
            && d.updates.iter().any(|u| *u.id() == rec.before.identity && u.state() == State::Down);
        let processed_turn_undead = matches!(d.message, Some(Message::TurnUndead))
            && d.class.as_ref().map(|c| c.accepted()).unwrap_or(false);
        // (an instance that already is Defunct has nothing new to learn; the code stays silent)
        if (processed_self_down || processed_turn_undead) && rec.res.is_ok() && conn_before != Conn::Defunct {
            ensure!(
                died,
                "C08:self-down-without-defunct-or-rejoin",
                "the call delivered Down/TurnUndead about the current identity {} but neither Defunct nor Rejoin was notified",
                rec.before.identity
            );
        }
        if rec.res.is_ok() && conn_before != Conn::Defunct && unrefutable_suspicion_processed(rec, self.codec, max_packet) {
            ensure!(
                died,
                "C08:unrefutable-suspicion-without-defunct-or-rejoin",
                "the call delivered a suspicion about {} that cannot be refuted (max(own, suspected) incarnation is the maximum) but neither Defunct nor Rejoin was notified",
                rec.before.identity
            );
        }
        if matches!(rec.call, Call::Leave) && rec.res.is_ok() {
            ensure!(
                conn_notes_in_call.iter().any(|n| matches!(n, N::Defunct)),
                "C08:leave-without-defunct",
                "leave_cluster() did not notify Defunct"
            );
        }
        // classification
        if rename_addrs.iter().any(|a| liveness_addrs.contains(a)) {
            self.saw_rename_with_liveness = true;
        }
        for n in conn_notes_in_call {
            let k = match n {
                N::Active => 4,
                N::Idle => 5,
                N::Defunct => 6,
                _ => 7,
            };
            self.last_conn_notes.push(k);
            let l = self.last_conn_notes.len();
            if l >= 3 && self.last_conn_notes[l - 3..] == [5, 4, 5] {
                self.cycles += 1;
            }
        }
        Ok(())
    }

    fn finish(&mut self, out: &mut CaseOut) {
        out.sub_evaluations += self.calls;
        let nt = self.saw_rename_with_liveness || self.cycles > 0 || self.defunct_then_recover;
        if self.saw_rename_with_liveness {
            out.class("rename_with_liveness_change");
        }
        if self.cycles > 0 {
            out.class("idle_active_idle_cycle");
        }
        if self.defunct_then_recover {
            out.class("defunct_then_reuse_or_rename");
        }
        if nt {
            let mut t = self.note_trace.clone();
            t.truncate(24);
            out.nontrivial(t);
        }
    }
}

fn rec_cfg_packet(runner: &Runner, _rec: &CallRec) -> usize {
    runner.inst.cfg.max_packet as usize
}

fn profile() -> (SetupProfile, Profile) {
    let mut p = Profile::default();
    p.old_timers = true;
    p.max_len = 150;
    p.weird_renew = true;
    let mut sp = SetupProfile::default();
    sp.weird_renew = true;
    (sp, p)
}

fn part_random() -> HistPart<Mon, impl Fn(&Setup) -> Mon + Sync> {
    let (sp, p) = profile();
    HistPart { name: "random-histories", sp, p, cases_quick: 80_000, cases_thorough: 2_000_000, mk: |s: &Setup| Mon::new(s.codec) }
}

// ---------------------------------------------------------------------------------------
// AccumulatingRuntime equivalence
// ---------------------------------------------------------------------------------------

pub struct AccPart;

type FAcc = Foca<Id, crate::codec::AnyCodec, rand::rngs::SmallRng, Handler>;

fn acc_call(foca: &mut FAcc, call: &Call, rt: &mut AccumulatingRuntime<Id>) -> Res {
    let r: Result<Option<bool>, foca::Error> = match call {
        Call::Data(b) => foca.handle_data(b, &mut *rt).map(|_| None),
        Call::Timer(t) => foca.handle_timer(t.clone(), &mut *rt).map(|_| None),
        Call::ApplyMany(ms, b) => foca.apply_many(ms.iter().cloned(), *b, &mut *rt).map(|_| None),
        Call::Announce(d) => foca.announce(*d, &mut *rt).map(|_| None),
        Call::Gossip => foca.gossip(&mut *rt).map(|_| None),
        Call::Broadcast => foca.broadcast(&mut *rt).map(|_| None),
        Call::AddBroadcast(b) => foca.add_broadcast(b).map(Some),
        Call::Leave => foca.leave_cluster(&mut *rt).map(|_| None),
        Call::ChangeIdentity(i) => foca.change_identity(*i, &mut *rt).map(|_| None),
        Call::ReuseDown => foca.reuse_down_identity().map(|_| None),
        Call::SetConfig(c) => foca.set_config(c.to_config()).map(|_| None),
    };
    match r {
        Ok(None) => Res::Ok,
        Ok(Some(b)) => Res::OkBool(b),
        Err(e) => Res::Err(err_kind(&e), e.to_string()),
    }
}

impl Part for AccPart {
    type Case = Case;
    fn name(&self) -> &'static str {
        "accumulating-runtime"
    }
    fn strategy(&self, _t: Tier) -> proptest::strategy::BoxedStrategy<Case> {
        let (sp, p) = profile();
        case(&sp, &p)
    }
    fn cases(&self, tier: Tier) -> u64 {
        tier.pick(30_000, 500_000)
    }
    fn exec(&self, case: &Case, out: &mut CaseOut) -> Result<(), Fail> {
        let mut runner = Runner::new(&case.setup);
        let s = &case.setup;
        let mut twin: FAcc = Foca::with_custom_broadcast(
            Id::with_renew(OWN_ADDR, s.own_gen as u16, s.own_renew),
            s.cfg.to_config(),
            rand::rngs::SmallRng::seed_from_u64(s.rng_seed),
            crate::codec::AnyCodec(s.codec),
            Handler::new(s.handler),
        );
        let mut rt = AccumulatingRuntime::new();
        let mut multi = 0u64;
        for op in &case.ops {
            let Some((rec, _)) = runner.step(op) else { continue };
            if rec.res.is_panic() {
                fail!("panic", "Foca panicked: {:?}", rec.res);
            }
            let res2 = acc_call(&mut twin, &rec.call, &mut rt);
            ensure!(res2 == rec.res, "C08:acc-result-differs", "result with AccumulatingRuntime {:?} differs from {:?} for {}", res2, rec.res, rec.call.render(s.codec));
            let exp_sends: Vec<(Id, Vec<u8>)> = rec.evs.iter().filter_map(|e| if let Ev::Send { to, bytes } = e { Some((*to, bytes.clone())) } else { None }).collect();
            let exp_timers: Vec<_> = rec.evs.iter().filter_map(|e| if let Ev::Timer { timer, after } = e { Some((*after, timer.clone())) } else { None }).collect();
            let exp_notes: Vec<_> = rec.evs.iter().filter_map(|e| if let Ev::Note(n) = e { Some(n.clone()) } else { None }).collect();
            ensure!(
                rt.backlog() == exp_sends.len() + exp_timers.len() + exp_notes.len(),
                "C08:acc-backlog",
                "AccumulatingRuntime::backlog()={} but the call produced {} effects",
                rt.backlog(),
                exp_sends.len() + exp_timers.len() + exp_notes.len()
            );
            let mut got_sends = Vec::new();
            while let Some((to, b)) = rt.to_send() {
                got_sends.push((to, b.to_vec()));
            }
            let mut got_timers = Vec::new();
            while let Some(x) = rt.to_schedule() {
                got_timers.push(x);
            }
            let mut got_notes = Vec::new();
            while let Some(x) = rt.to_notify() {
                got_notes.push(x);
            }
            ensure!(got_sends == exp_sends, "C08:acc-sends-differ", "to_send() order/content differs for {}:\n direct {:?}\n accumulated {:?}", rec.call.render(s.codec), exp_sends, got_sends);
            ensure!(got_timers == exp_timers, "C08:acc-timers-differ", "to_schedule() differs for {}:\n direct {:?}\n accumulated {:?}", rec.call.render(s.codec), exp_timers, got_timers);
            ensure!(got_notes == exp_notes, "C08:acc-notes-differ", "to_notify() differs for {}:\n direct {:?}\n accumulated {:?}", rec.call.render(s.codec), exp_notes, got_notes);
            ensure!(rt.backlog() == 0, "C08:acc-backlog", "backlog() is {} after draining", rt.backlog());
            if exp_sends.len() > 1 || exp_timers.len() > 1 || exp_notes.len() > 1 {
                multi += 1;
                out.nontrivial((rec.call.kind(), exp_sends.len().min(4), exp_timers.len().min(4), exp_notes.len().min(4)));
            }
        }
        out.class_n("calls_with_multiple_effects_in_one_queue", multi);
        Ok(())
    }
}

// ---------------------------------------------------------------------------------------
// Bounded exhaustive enumeration over a reduced alphabet
// ---------------------------------------------------------------------------------------

fn small_alphabet() -> Vec<Op> {
    let gossip = |src: IdSel, inc: u16, members: Vec<MemberSpec>| {
        Op::Data(DataSpec { src, inc: IncSel::Abs(inc), dst: DstSel::Me, msg: MsgSel::Gossip, members: Some(members), items: vec![], mangle: Mangle::None })
    };
    let ms = |id: IdSel, inc: IncSel, state: u8| MemberSpec { id, inc, state };
    let mut v = vec![
        gossip(IdSel::Abs(1, 0), 0, vec![]),
        gossip(IdSel::Abs(1, 1), 0, vec![]),
        gossip(IdSel::Abs(2, 0), 1, vec![]),
        gossip(IdSel::Abs(1, 0), 0, vec![ms(IdSel::Abs(2, 0), IncSel::Abs(0), 1)]),
        gossip(IdSel::Abs(1, 0), 0, vec![ms(IdSel::Abs(2, 0), IncSel::Abs(0), 2)]),
        gossip(IdSel::Abs(2, 0), 0, vec![ms(IdSel::Abs(1, 0), IncSel::Abs(1), 2)]),
        gossip(IdSel::Abs(1, 0), 0, vec![ms(IdSel::Abs(2, 1), IncSel::Abs(0), 0)]),
        gossip(IdSel::Abs(1, 0), 0, vec![ms(IdSel::Own, IncSel::Rel(0), 1)]),
        gossip(IdSel::Abs(2, 0), 0, vec![ms(IdSel::Own, IncSel::Abs(0), 2)]),
        Op::Data(DataSpec { src: IdSel::Abs(1, 0), inc: IncSel::Abs(0), dst: DstSel::Me, msg: MsgSel::TurnUndead, members: None, items: vec![], mangle: Mangle::None }),
        Op::Data(DataSpec { src: IdSel::ProbeTarget, inc: IncSel::Rel(0), dst: DstSel::Me, msg: MsgSel::Ack(NoSel::Cur), members: Some(vec![]), items: vec![], mangle: Mangle::None }),
        Op::ApplyMany(vec![ms(IdSel::Abs(1, 0), IncSel::Abs(0), 2)], true),
        Op::Leave,
        Op::ReuseDown,
        Op::ChangeIdentity(IdSel::OwnAddr(3), RENEW_NEXT),
        Op::FireNext,
    ];
    for k in 0..4u16 {
        // Fire(k) with k-th quarter of the index space: covers every outstanding timer when <= 4 are pending
        v.push(Op::Fire(k * 16384 + 1));
    }
    v
}

fn enum_case(index: u64, depth: u32, alpha: &[Op], own_renew: u8, notify: bool) -> Case {
    let mut ops = Vec::new();
    let mut i = index;
    for _ in 0..depth {
        ops.push(alpha[(i % alpha.len() as u64) as usize].clone());
        i /= alpha.len() as u64;
    }
    Case {
        setup: Setup {
            own_gen: 1,
            own_renew,
            cfg: CfgSpec { notify_down: notify, max_tx: 2, num_indirect: 1, remove_down_ms: 5000, ..CfgSpec::default() },
            codec: CodecKind::Fix,
            rng_seed: 7,
            handler: HandlerSpec::OFF,
        },
        ops,
    }
}

pub fn run(ctx: &Ctx, report: &mut Report) -> EvidenceMeta {
    let alpha = small_alphabet();
    let depth = ctx.tier.pick(5u32, 6u32);
    let per = (alpha.len() as u64).pow(depth);
    let variants: [(u8, bool); 4] = [(RENEW_NONE, false), (RENEW_NEXT, true), (RENEW_NONE, true), (RENEW_NEXT, false)];
    let nvar = ctx.tier.pick(2usize, 4usize);
    let total = per * nvar as u64;
    ctx.run_enum(
        "exhaustive-small-alphabet",
        total,
        |i| enum_case(i % per, depth, &alpha, variants[(i / per) as usize].0, variants[(i / per) as usize].1),
        |c: &Case, out: &mut CaseOut| {
            let mut mon = Mon::new(c.setup.codec);
            run_history(c, &mut mon, out)
        },
        report,
        true,
    );
    report.extra.insert(
        "exhaustive_alphabet".into(),
        serde_json::json!({"ops": alpha.len(), "depth": depth, "variants": nvar, "histories": total}),
    );
    ctx.run_part(&part_random(), report);
    ctx.run_part(&AccPart, report);
    EvidenceMeta {
        level: "exploration",
        rule: "three generators: (1) complete enumeration of all histories of the stated depth over a reduced alphabet (gossip from 2 foreign addresses x 2 generations with Suspect/Down/rename/self-Suspect/self-Down updates, TurnUndead, a valid Ack, apply_many Down, leave, reuse, change_identity, and firing each outstanding timer) for renewable/non-renewable identities and notify_down on/off; (2) proptest random histories up to 150 calls over the large alphabet; (3) the same random histories run in lock-step against AccumulatingRuntime. Oracle: mirror set rebuilt from MemberUp/MemberDown/Rename equals iter_members() after every call, num_members()==|mirror|, connection state machine (Active only from idle with members, Idle only from active with none, Defunct/Rejoin iff justified), AccumulatingRuntime queues equal the direct runtime's per-queue order. Non-trivial: a Rename together with a liveness change of the same address, an Idle->Active->Idle cycle, or Defunct followed by reuse/rename; distinct = first 24 notification kinds of the history (or effect-count shape for the runtime part)."
            .into(),
        assumptions: vec![
            "harness identity order is a strict total order per address".into(),
            "'can no longer refute a suspicion' = a Suspect about the own identity at Incarnation::MAX and not below the own incarnation; a suspicion below the own incarnation is stale (already refuted) and justifies neither Defunct nor Rejoin".into(),
        ],
    }
}

pub fn replay(part_name: &str, case: &Value) -> Option<Result<(), Fail>> {
    match part_name {
        "random-histories" => Some(replay_with(&part_random(), case)),
        "accumulating-runtime" => Some(replay_with(&AccPart, case)),
        "exhaustive-small-alphabet" => Some((|| {
            let c: Case = serde_json::from_value(case.clone()).map_err(|e| Fail::new("replay:bad-file", e.to_string()))?;
            let mut mon = Mon::new(c.setup.codec);
            run_history(&c, &mut mon, &mut CaseOut::default())
        })()),
        _ => None,
    }
}
