//! C09 — One record per address; identities only move forward; own address never active.
use crate::codec::CodecKind;
use crate::engine::*;
use crate::hist::*;
use crate::ident::*;
use crate::inst::*;
use crate::model;
use crate::ops::*;
use crate::rt::{notes, sends};
use crate::ensure;
use foca::{Identity, Message, OwnedNotification as N, State, Timer};
use serde_json::Value;
use std::collections::{BTreeMap, BTreeSet};

pub struct Mon {
    codec: CodecKind,
    told_addrs: BTreeSet<u16>,
    /// per address: highest generation recorded since the address was last forgotten
    floor: BTreeMap<u16, u16>,
    channels: BTreeMap<u16, BTreeSet<(u16, u8)>>, // addr -> (gen, channel) seen in inputs
    nonmonotone: bool,
    own_gen_seen: bool,
    discards: u64,
    calls: u64,
    last_gen_in: BTreeMap<u16, u16>,
}

impl Mon {
    pub fn new(codec: CodecKind) -> Self {
        Mon {
            codec,
            told_addrs: BTreeSet::new(),
            floor: BTreeMap::new(),
            channels: BTreeMap::new(),
            nonmonotone: false,
            own_gen_seen: false,
            discards: 0,
            calls: 0,
            last_gen_in: BTreeMap::new(),
        }
    }
    fn told(&mut self, id: &Id, channel: u8, own: &Id) {
        self.told_addrs.insert(id.addr);
        self.channels.entry(id.addr).or_default().insert((id.gen, channel));
        if let Some(prev) = self.last_gen_in.get(&id.addr) {
            if id.gen < *prev {
                self.nonmonotone = true;
            }
        }
        self.last_gen_in.insert(id.addr, id.gen);
        if id.addr == own.addr && id != own {
            self.own_gen_seen = true;
        }
    }
}

impl Monitor for Mon {
    fn on_call(&mut self, rec: &CallRec, _o: &Origin, runner: &Runner) -> Result<(), Fail> {
        self.calls += 1;
        let max_packet = runner.inst.cfg.max_packet as usize;
        let own = rec.before.identity;
        // inputs: every address the instance could have been told about in this call
        let d = model::delivered(rec, max_packet, self.codec);
        if let Some((src, _)) = d.src {
            self.told(&src, 0, &own);
        }
        for u in &d.updates {
            self.told(u.id(), 1, &own);
        }
        match &rec.call {
            Call::Timer(t) => match t {
                Timer::ChangeSuspectToDown { member_id, .. } => self.told(member_id, 2, &own),
                Timer::SendIndirectProbe { probed_id, .. } => self.told(probed_id, 2, &own),
                Timer::RemoveDown(x) => self.told(x, 2, &own),
                _ => {}
            },
            Call::Data(b) => {
                // even a rejected datagram may name addresses; count them (upper bound only gets looser)
                if let Ok(dg) = crate::wire::parse(b, self.codec) {
                    self.told_addrs.insert(dg.header.src.addr);
                    for m in dg.members.iter().flatten() {
                        self.told_addrs.insert(m.id().addr);
                    }
                }
            }
            _ => {}
        }
        // every change of a record must be explained by an input of THIS call (a payload that was
        // discarded earlier, e.g. because its sender was Down or superseded, must never resurface later)
        let mut explained: BTreeSet<u16> = BTreeSet::new();
        match &rec.call {
            Call::Data(b) => {
                if let Ok(dg) = crate::wire::parse(b, self.codec) {
                    explained.insert(dg.header.src.addr);
                    for m in dg.members.iter().flatten() {
                        explained.insert(m.id().addr);
                    }
                } else if let Some(c) = &d.class {
                    if let Some(dg) = &c.dgram {
                        explained.insert(dg.header.src.addr);
                        for m in dg.members.iter().flatten() {
                            explained.insert(m.id().addr);
                        }
                    }
                }
            }
            Call::ApplyMany(ms, _) => {
                for m in ms {
                    explained.insert(m.id().addr);
                }
            }
            Call::Timer(t) => match t {
                Timer::ChangeSuspectToDown { member_id, .. } => {
                    explained.insert(member_id.addr);
                }
                Timer::RemoveDown(x) => {
                    explained.insert(x.addr);
                }
                Timer::ProbeRandomMember(_) => {
                    if let Some(t) = &rec.before.snap.probe_target {
                        explained.insert(t.id().addr);
                    }
                }
                _ => {}
            },
            _ => {}
        }
        let mut changed: BTreeSet<u16> = BTreeSet::new();
        for m in &rec.before.state {
            if rec.after.record(m.id().addr) != Some(m) {
                changed.insert(m.id().addr);
            }
        }
        for m in &rec.after.state {
            if rec.before.record(m.id().addr) != Some(m) {
                changed.insert(m.id().addr);
            }
        }
        for a in &changed {
            ensure!(
                explained.contains(a),
                "C09:unexplained-record-change",
                "the record for address {} changed from {:?} to {:?} in a {} call whose input never mentions that address (a payload discarded earlier resurfaced?)",
                a,
                rec.before.record(*a),
                rec.after.record(*a),
                rec.call.kind()
            );
        }
        let st = &rec.after.state;
        // one record per address
        let mut seen = BTreeSet::new();
        for m in st {
            ensure!(seen.insert(m.id().addr), "C09:duplicate-address", "two records share address {}: {:?}", m.id().addr, st);
        }
        // own address never active
        for m in st {
            ensure!(
                !(m.id().addr == rec.after.identity.addr && m.state() != State::Down),
                "C09:own-address-active",
                "record {:?} bears the instance's own address ({}) and is active",
                m,
                rec.after.identity
            );
        }
        for a in &rec.after.active {
            ensure!(a.addr != rec.after.identity.addr, "C09:own-address-active", "iter_members() lists {} which bears the own address", a);
        }
        // never grows beyond what it was told
        ensure!(
            st.len() <= self.told_addrs.len(),
            "C09:more-records-than-addresses-told",
            "{} records but only {} distinct addresses ever appeared in inputs",
            st.len(),
            self.told_addrs.len()
        );
        for m in st {
            ensure!(self.told_addrs.contains(&m.id().addr), "C09:record-for-untold-address", "record {:?} for an address never mentioned in any input", m);
        }
        // identities only move forward
        let renames: Vec<(Id, Id)> = notes(&rec.evs).filter_map(|n| if let N::Rename(a, b) = n { Some((*a, *b)) } else { None }).collect();
        for (a, b) in &renames {
            ensure!(a.addr == b.addr && b.win_addr_conflict(a), "C09:rename-not-winning", "Rename({a},{b}) where {b} does not win against {a}");
        }
        for old in &rec.before.state {
            let addr = old.id().addr;
            match rec.after.record(addr) {
                None => {
                    // forgotten: only by the forget-timer for exactly that identity, while Down
                    let ok = matches!(&rec.call, Call::Timer(Timer::RemoveDown(x)) if x == old.id()) && old.state() == State::Down;
                    ensure!(
                        ok,
                        "C09:record-vanished",
                        "record {:?} disappeared in a call that is not the forget-timer for exactly that (Down) identity",
                        old
                    );
                    self.floor.remove(&addr);
                }
                Some(new) if new.id() != old.id() => {
                    ensure!(
                        new.id().win_addr_conflict(old.id()),
                        "C09:identity-went-backwards",
                        "record for address {} changed from {} to {} which does not win the conflict",
                        addr,
                        old.id(),
                        new.id()
                    );
                    // a chain of Rename notifications must lead from old to new
                    let mut cur = *old.id();
                    for (a, b) in &renames {
                        if *a == cur {
                            cur = *b;
                        }
                    }
                    ensure!(
                        cur == *new.id(),
                        "C09:identity-change-without-rename",
                        "record for address {} changed from {} to {} without matching Rename notifications ({:?})",
                        addr,
                        old.id(),
                        new.id(),
                        renames
                    );
                }
                _ => {}
            }
        }
        // being told (through a processed payload) about an identity that wins the address conflict
        // supersedes the record whatever the two states are: the record may not stay behind it
        if d.processed && rec.res.is_ok() {
            let own_chain = identity_chain(rec);
            for u in &d.updates {
                // updates about an identity the instance itself holds / held during this call are
                // self-updates (refutation, renewal), not membership records
                if own_chain.contains(u.id()) || rec.after.record(u.id().addr).is_none() {
                    continue;
                }
                let f = self.floor.entry(u.id().addr).or_insert(u.id().gen);
                if u.id().gen > *f {
                    *f = u.id().gen;
                }
            }
        }
        for m in st {
            let f = self.floor.entry(m.id().addr).or_insert(m.id().gen);
            ensure!(
                m.id().gen >= *f,
                "C09:fell-back-to-superseded-identity",
                "address {} is recorded as generation {} although generation {} was recorded (or told through a processed payload) earlier and never forgotten",
                m.id().addr,
                m.id().gen,
                *f
            );
            *f = m.id().gen;
        }
        // payload of superseded / Down senders is discarded
        if let (Call::Data(_), Some(c)) = (&rec.call, &d.class) {
            if let (Some(dg), true) = (&c.dgram, c.accepted()) {
                let src = dg.header.src;
                let stale = match rec.before.record(src.addr) {
                    Some(r) if *r.id() == src => r.state() == State::Down,
                    Some(r) => r.id().win_addr_conflict(&src),
                    None => false,
                };
                if stale {
                    self.discards += 1;
                    ensure!(
                        rec.before.state == rec.after.state,
                        "C09:stale-sender-payload-applied",
                        "datagram from {} (Down or superseded before the call) changed the membership state:\n before {:?}\n after  {:?}",
                        src,
                        rec.before.state,
                        rec.after.state
                    );
                    ensure!(
                        rec.handler_calls.is_empty(),
                        "C09:stale-sender-items-delivered",
                        "datagram from {} (Down or superseded) had its custom broadcast items handed to the handler",
                        src
                    );
                    let is_tu = dg.header.message == Message::TurnUndead;
                    for s in sent_dgrams(rec, self.codec, "C09")? {
                        let k = &s.dgram.header.message;
                        let tu_reply = *k == Message::TurnUndead && *s.to == src;
                        let allowed = tu_reply || (is_tu && *k == Message::Gossip);
                        ensure!(
                            allowed,
                            "C09:stale-sender-answered",
                            "datagram from {} (Down or superseded) was answered with {:?} to {}",
                            src,
                            k,
                            s.to
                        );
                        if tu_reply {
                            ensure!(runner.inst.cfg.notify_down, "C09:turnundead-without-notify-down", "TurnUndead sent although notify_down_members is off");
                        }
                    }
                    if !is_tu {
                        ensure!(
                            notes(&rec.evs).next().is_none(),
                            "C09:stale-sender-notification",
                            "datagram from {} (Down or superseded) caused notifications {:?}",
                            src,
                            notes(&rec.evs).collect::<Vec<_>>()
                        );
                        let n_tu = sends(&rec.evs).count();
                        ensure!(
                            n_tu == usize::from(runner.inst.cfg.notify_down),
                            "C09:stale-sender-turnundead-count",
                            "expected {} TurnUndead replies to stale sender {}, saw {} datagrams",
                            usize::from(runner.inst.cfg.notify_down),
                            src,
                            n_tu
                        );
                    }
                }
            }
        }
        Ok(())
    }

    fn finish(&mut self, out: &mut CaseOut) {
        out.sub_evaluations += self.calls;
        out.class_n("stale_sender_datagrams_checked", self.discards);
        let multi_channel = self.channels.values().any(|s| {
            let gens: BTreeSet<u16> = s.iter().map(|x| x.0).collect();
            let chans: BTreeSet<u8> = s.iter().map(|x| x.1).collect();
            gens.len() >= 2 && chans.len() >= 2
        });
        if self.nonmonotone && multi_channel {
            out.class("generations_out_of_order_via_two_channels");
        }
        if self.own_gen_seen {
            out.class("own_address_other_generation_in_input");
        }
        if (self.nonmonotone && multi_channel) || self.own_gen_seen {
            let sig: Vec<(u16, usize)> = self.channels.iter().map(|(a, s)| (*a, s.len())).collect();
            out.nontrivial((sig, self.discards.min(5), self.own_gen_seen));
        }
    }
}

fn part() -> HistPart<Mon, impl Fn(&Setup) -> Mon + Sync> {
    let mut p = Profile::default();
    p.n_gen = 5;
    p.old_timers = true;
    p.max_len = 120;
    // change_identity restricted to its documented use: a new identity on the own address
    p.change_addr = false;
    let mut sp = SetupProfile::default();
    sp.codecs = vec![CodecKind::Fix, CodecKind::Var];
    HistPart { name: "histories", sp, p, cases_quick: 120_000, cases_thorough: 3_000_000, mk: |s: &Setup| Mon::new(s.codec) }
}

pub fn run(ctx: &Ctx, report: &mut Report) -> EvidenceMeta {
    ctx.run_part(&part(), report);
    EvidenceMeta {
        level: "exploration",
        rule: "proptest random single-instance histories over 5 addresses x 5 generations (own address included, older and newer than the current identity), datagrams of every kind, update lists, issued timers in any order incl. duplicates, renewals and change_identity on the own address. After every call: addresses pairwise distinct, own address never active, #records <= #addresses told, record identity changes only to a winning identity with matching Rename, a record vanishes only through RemoveDown of exactly that Down identity, no fall-back to (or staying behind) a generation that was recorded or told through a processed payload; datagrams from Down/superseded senders change nothing, reach no handler and are answered at most by one TurnUndead. Non-trivial: generations of one address arrive out of order through >= 2 channels (header, update, timer) or the own address appears with another generation; distinct = per-address channel profile."
            .into(),
        assumptions: vec![
            "change_identity is only used for a new identity on the instance's own address (documented use)".into(),
            "harness identity order is a strict total order per address".into(),
        ],
    }
}

pub fn replay(part_name: &str, case: &Value) -> Option<Result<(), Fail>> {
    match part_name {
        "histories" => Some(replay_with(&part(), case)),
        _ => None,
    }
}
