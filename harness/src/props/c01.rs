//! C01 — Membership knowledge is a join-semilattice (SWIM precedence order).
use crate::codec::CodecKind;
use crate::engine::*;
use crate::ensure;
use crate::handler::HandlerSpec;
use crate::ident::*;
use crate::inst::*;
use crate::model::{lval, lval_to_view, LVal};
use crate::rt::notes;
use foca::{Header, Member, Message, OwnedNotification as N, State};
use proptest::prelude::*;
use serde::{Deserialize, Serialize};
use serde_json::{json, Value};
use std::collections::BTreeMap;

const SENDER: Id = Id { addr: 60_000, gen: 0, renew: 0 };

#[derive(Clone, Copy, Debug, Serialize, Deserialize, PartialEq, Eq, Hash, PartialOrd, Ord)]
pub struct Upd {
    pub addr: u16,
    pub gen: u16,
    pub inc: u16,
    pub state: u8,
}
impl Upd {
    fn member(&self) -> Member<Id> {
        Member::new(
            Id::new(self.addr, self.gen),
            self.inc,
            match self.state {
                0 => State::Alive,
                1 => State::Suspect,
                _ => State::Down,
            },
        )
    }
}

#[derive(Clone, Debug, Serialize, Deserialize)]
pub struct Plan {
    /// indices into the multiset, every index at least once, duplicates allowed
    pub order: Vec<usize>,
    /// element i starts a new call iff cut[i]
    pub cut: Vec<bool>,
    /// per call: do_broadcast
    pub broadcast: Vec<bool>,
    /// per call: deliver as the update section of a Gossip datagram instead of apply_many
    pub via_gossip: Vec<bool>,
}

#[derive(Clone, Debug, Serialize, Deserialize)]
pub struct JoinCase {
    pub own_addr: u16,
    pub own_gen: u16,
    pub rng_seed: u64,
    pub updates: Vec<Upd>,
    pub plans: Vec<Plan>,
}

pub type ViewMap = BTreeMap<u16, (Id, State, Option<u16>)>;

pub fn view_of(inst: &Inst, skip: &[u16]) -> ViewMap {
    let mut m = BTreeMap::new();
    for r in inst.foca.iter_membership_state() {
        if skip.contains(&r.id().addr) {
            continue;
        }
        m.insert(r.id().addr, (*r.id(), r.state(), if r.state() == State::Down { None } else { Some(r.incarnation()) }));
    }
    m
}

/// The join of a collection of updates as the statement words it. Updates bearing the instance's
/// own address are knowledge about a previous identity: always Down.
pub fn join(updates: impl Iterator<Item = Member<Id>>, own: &Id) -> BTreeMap<u16, LVal> {
    let mut j: BTreeMap<u16, LVal> = BTreeMap::new();
    for u in updates {
        if u.id() == own {
            continue;
        }
        let mut v = lval(&u);
        if u.id().addr == own.addr {
            v.rank = (1, 0, 0);
        }
        j.entry(u.id().addr).and_modify(|e| *e = (*e).max(v)).or_insert(v);
    }
    j
}

fn expected_view(j: &BTreeMap<u16, LVal>) -> ViewMap {
    j.iter().map(|(a, v)| (*a, lval_to_view(*a, v))).collect()
}

fn mk_inst(own: Id, seed: u64) -> Inst {
    Inst::new(own, CfgSpec { max_tx: 3, ..CfgSpec::default() }, CodecKind::Fix, seed, HandlerSpec::OFF)
}

fn lattice_of(inst: &Inst) -> BTreeMap<u16, LVal> {
    inst.foca.iter_membership_state().map(|m| (m.id().addr, lval(m))).collect()
}

/// Delivers one plan to a fresh instance, checking monotonicity call by call.
fn run_plan(case: &JoinCase, plan: &Plan, seed: u64) -> Result<(Inst, usize), Fail> {
    let own = Id::new(case.own_addr, case.own_gen);
    let mut inst = mk_inst(own, seed);
    // make the fixed sender known up front so that its header never changes anything later
    inst.raw_call(&Call::ApplyMany(vec![Member::new(SENDER, 0, State::Alive)], false));
    let mut calls: Vec<Vec<Member<Id>>> = Vec::new();
    for (k, idx) in plan.order.iter().enumerate() {
        if k == 0 || plan.cut.get(k).copied().unwrap_or(false) {
            calls.push(Vec::new());
        }
        calls.last_mut().unwrap().push(case.updates[*idx].member());
    }
    let mut prev = lattice_of(&inst);
    for (ci, ms) in calls.iter().enumerate() {
        let gossip = plan.via_gossip.get(ci).copied().unwrap_or(false);
        let call = if gossip {
            let h = Header { src: SENDER, src_incarnation: 0, dst: own, message: Message::Gossip };
            Call::Data(crate::wire::build(CodecKind::Fix, &h, Some(ms), &[]))
        } else {
            Call::ApplyMany(ms.clone(), plan.broadcast.get(ci).copied().unwrap_or(true))
        };
        let (res, _evs, _, _) = inst.raw_call(&call);
        if let Res::Panic(m) = &res {
            return Err(Fail::new("panic", format!("Foca panicked: {m}")));
        }
        ensure!(res.is_ok(), "C01:unexpected-error", "delivering {:?} returned {:?}", ms, res);
        let now = lattice_of(&inst);
        for (a, v) in &prev {
            match now.get(a) {
                Some(n) => {
                    // records bearing the own address are pinned to Down
                    ensure!(n >= v, "C01:record-moved-backwards", "record for address {a} went from {:?} to {:?} when applying {:?}", v, n, ms);
                }
                None => return Err(Fail::new("C01:record-vanished", format!("record for address {a} vanished when applying {:?}", ms))),
            }
        }
        prev = now;
    }
    Ok((inst, calls.len()))
}

pub fn exec_join(case: &JoinCase, out: &mut CaseOut) -> Result<(), Fail> {
    let own = Id::new(case.own_addr, case.own_gen);
    let j = join(case.updates.iter().map(|u| u.member()), &own);
    let expect = expected_view(&j);
    let mut first_view: Option<ViewMap> = None;
    for (pi, plan) in case.plans.iter().enumerate() {
        let (mut inst, _ncalls) = run_plan(case, plan, case.rng_seed.wrapping_add(pi as u64))?;
        let v = view_of(&inst, &[SENDER.addr]);
        ensure!(
            v == expect,
            "C01:view-differs-from-join",
            "after delivering the multiset {:?}\n in order {:?} (cuts {:?}, gossip {:?})\n the view is   {:?}\n but the join is {:?}",
            case.updates,
            plan.order,
            plan.cut,
            plan.via_gossip,
            v,
            expect
        );
        // the view also has an active side: iter_members() / num_members() are exactly the records that
        // are not Down, whatever the order and multiplicity of delivery was
        let mut active_records: Vec<Id> = inst.foca.iter_membership_state().filter(|m| m.state() != State::Down).map(|m| *m.id()).collect();
        let mut listed: Vec<Id> = inst.foca.iter_members().map(|m| *m.id()).collect();
        active_records.sort();
        listed.sort();
        ensure!(
            listed == active_records && inst.foca.num_members() == active_records.len(),
            "C01:active-view-differs-from-records",
            "after delivering the multiset {:?} in order {:?}: records that are not Down {:?}, iter_members() {:?}, num_members() {}",
            case.updates,
            plan.order,
            active_records,
            listed,
            inst.foca.num_members()
        );
        if let Some(f) = &first_view {
            ensure!(*f == v, "C01:order-dependent-view", "two delivery plans of the same multiset give different views:\n {:?}\n {:?}", f, v);
        } else {
            first_view = Some(v.clone());
        }
        // "final until the member is forgotten": the forget-timer of an identity that is NOT the one on
        // record (a superseded or never-recorded identity of the address) must not forget anything
        for u in &case.updates {
            let id = Id::new(u.addr, u.gen);
            let on_record = inst.foca.iter_membership_state().any(|m| *m.id() == id);
            if !on_record && id != own {
                let (res, evs, _, _) = inst.raw_call(&Call::Timer(foca::Timer::RemoveDown(id)));
                ensure!(res.is_ok() && evs.is_empty(), "C01:stale-forget-timer-effect", "RemoveDown({id}) for an identity not on record returned {:?} / {:?}", res, evs);
                let v2 = view_of(&inst, &[SENDER.addr]);
                ensure!(
                    v2 == expect,
                    "C01:stale-forget-timer-forgets-successor",
                    "the forget-timer of {id}, which is not the identity on record, changed the view from {:?} to {:?}",
                    expect,
                    v2
                );
            }
        }
        // idempotence: re-applying the instance's own full state changes nothing
        let state: Vec<Member<Id>> = inst.foca.iter_membership_state().cloned().collect();
        let before = inst.view();
        let (res, evs, _, _) = inst.raw_call(&Call::ApplyMany(state.clone(), true));
        ensure!(res.is_ok(), "C01:unexpected-error", "re-applying own state returned {:?}", res);
        let after = inst.view();
        let mut b = before.state.clone();
        let mut a = after.state.clone();
        b.sort_by_key(|m| m.id().key());
        a.sort_by_key(|m| m.id().key());
        ensure!(a == b, "C01:reapply-own-state-changes-view", "re-applying the own full state changed it:\n before {:?}\n after  {:?}", b, a);
        ensure!(before.num_members == after.num_members, "C01:reapply-own-state-changes-count", "num_members changed {} -> {}", before.num_members, after.num_members);
        ensure!(
            before.updates_backlog == after.updates_backlog,
            "C01:reapply-own-state-changes-backlog",
            "re-applying the own full state changed updates_backlog {} -> {}",
            before.updates_backlog,
            after.updates_backlog
        );
        let loud: Vec<_> = notes(&evs).filter(|n| matches!(n, N::MemberUp(_) | N::MemberDown(_) | N::Rename(_, _))).collect();
        ensure!(loud.is_empty(), "C01:reapply-own-state-notifies", "re-applying the own full state notified {:?}", loud);
    }
    // classification
    let mut conflict = false;
    let mut has_down = false;
    let mut has_max = false;
    let mut own_addr_gen = false;
    for (i, a) in case.updates.iter().enumerate() {
        has_down |= a.state == 2;
        has_max |= a.inc == u16::MAX;
        own_addr_gen |= a.addr == case.own_addr;
        for b in &case.updates[i + 1..] {
            if a.addr == b.addr && (a.gen != b.gen || (a.inc == b.inc && a.state != b.state) || (a.state == 2) != (b.state == 2)) {
                conflict = true;
            }
        }
    }
    if conflict {
        out.class("has_conflicting_pair");
    }
    if has_down {
        out.class("has_down");
    }
    if has_max {
        out.class("has_max_incarnation");
    }
    if own_addr_gen {
        out.class("own_address_generation_present");
    }
    if conflict && case.plans.len() >= 2 {
        let mut u = case.updates.clone();
        u.sort();
        u.dedup();
        out.nontrivial(u);
    }
    if out.want_sample {
        out.sample = Some(json!({"case": case, "join": format!("{:?}", expect)}));
    }
    Ok(())
}

fn upd(own_addr: u16, own_gen: u16) -> BoxedStrategy<Upd> {
    let inc = prop_oneof![
        6 => 0..4u16,
        2 => prop_oneof![Just(u16::MAX), Just(u16::MAX - 1), Just(u16::MAX - 2)],
        1 => any::<u16>(),
    ];
    let third = (1..5u16, 0..4u16, inc.clone(), 0..3u8).prop_map(|(addr, gen, inc, state)| Upd { addr, gen, inc, state });
    let own = (0..5u16, inc, 0..3u8)
        .prop_filter_map("own identity excluded", move |(gen, inc, state)| if gen == own_gen { None } else { Some(Upd { addr: own_addr, gen, inc, state }) });
    prop_oneof![9 => third, 1 => own].boxed()
}

fn plan(n: usize) -> BoxedStrategy<Plan> {
    let base: Vec<usize> = (0..n).collect();
    (Just(base).prop_shuffle(), proptest::collection::vec((0..n, any::<u16>()), 0..n + 1), proptest::collection::vec(any::<bool>(), 2 * n + 2), proptest::collection::vec(prop_oneof![4 => Just(true), 1 => Just(false)], 2 * n + 2), proptest::collection::vec(prop_oneof![3 => Just(false), 1 => Just(true)], 2 * n + 2))
        .prop_map(|(mut order, dups, cut, broadcast, via_gossip)| {
            for (idx, pos) in dups {
                let p = ((pos as usize) * (order.len() + 1)) >> 16;
                order.insert(p, idx);
            }
            Plan { order, cut, broadcast, via_gossip }
        })
        .boxed()
}

pub struct JoinPart;
impl Part for JoinPart {
    type Case = JoinCase;
    fn name(&self) -> &'static str {
        "multiset-plans"
    }
    fn strategy(&self, _t: Tier) -> BoxedStrategy<JoinCase> {
        (0..3u16, any::<u64>())
            .prop_flat_map(|(own_gen, rng_seed)| {
                let own_gen = own_gen + 1;
                proptest::collection::vec(upd(0, own_gen), 1..25).prop_flat_map(move |updates| {
                    let n = updates.len();
                    proptest::collection::vec(plan(n), 2..7).prop_map(move |plans| JoinCase { own_addr: 0, own_gen, rng_seed, updates: updates.clone(), plans })
                })
            })
            .boxed()
    }
    fn cases(&self, tier: Tier) -> u64 {
        tier.pick(80_000, 2_000_000)
    }
    fn exec(&self, c: &JoinCase, out: &mut CaseOut) -> Result<(), Fail> {
        exec_join(c, out)
    }
}

// ---------------------------------------------------------------------------------------
// State exchange between two instances
// ---------------------------------------------------------------------------------------

#[derive(Clone, Debug, Serialize, Deserialize)]
pub struct ExchangeCase {
    pub a: JoinCase,
    pub b: JoinCase,
    /// true: B replies with its merged state (sequential); false: both send their original state
    pub reply: bool,
}

pub struct ExchangePart;

pub fn exec_exchange(c: &ExchangeCase, out: &mut CaseOut) -> Result<(), Fail> {
    let (mut ia, _) = run_plan(&c.a, &c.a.plans[0], c.a.rng_seed)?;
    let (mut ib, _) = run_plan(&c.b, &c.b.plans[0], c.b.rng_seed)?;
    let own_a = Id::new(c.a.own_addr, c.a.own_gen);
    let own_b = Id::new(c.b.own_addr, c.b.own_gen);
    let sa: Vec<Member<Id>> = ia.foca.iter_membership_state().cloned().collect();
    let sb: Vec<Member<Id>> = ib.foca.iter_membership_state().cloned().collect();
    let skip = [own_a.addr, own_b.addr, SENDER.addr];
    // expected: join of both states on third-party addresses
    let j = join(sa.iter().chain(sb.iter()).cloned().filter(|m| !skip.contains(&m.id().addr)), &Id::new(65_535, 65_535));
    let expect = expected_view(&j);
    let (r1, _, _, _) = ib.raw_call(&Call::ApplyMany(sa.clone(), true));
    ensure!(!r1.is_panic(), "panic", "panic: {:?}", r1);
    let reply: Vec<Member<Id>> = if c.reply { ib.foca.iter_membership_state().cloned().collect() } else { sb.clone() };
    let (r2, _, _, _) = ia.raw_call(&Call::ApplyMany(reply, true));
    ensure!(!r2.is_panic(), "panic", "panic: {:?}", r2);
    ensure!(r1.is_ok() && r2.is_ok(), "C01:unexpected-error", "state exchange returned {:?} / {:?}", r1, r2);
    let va = view_of(&ia, &skip);
    let vb = view_of(&ib, &skip);
    ensure!(
        va == vb,
        "C01:exchange-disagreement",
        "after exchanging full states in both directions the instances disagree on third-party addresses:\n A: {:?}\n B: {:?}\n (A had {:?}\n  B had {:?})",
        va,
        vb,
        sa,
        sb
    );
    ensure!(va == expect, "C01:exchange-not-join", "exchanged view {:?} is not the join {:?} of both states", va, expect);
    let differing = sa.iter().filter(|m| !skip.contains(&m.id().addr)).any(|m| !sb.contains(m));
    out.class("exchange_case");
    if differing {
        out.nontrivial(("exchange", va.len(), c.reply, hash_of(&format!("{:?}", expect)) % 4096));
    }
    if out.want_sample {
        out.sample = Some(json!({"A_state": format!("{:?}", sa), "B_state": format!("{:?}", sb), "agreed": format!("{:?}", va)}));
    }
    Ok(())
}

impl Part for ExchangePart {
    type Case = ExchangeCase;
    fn name(&self) -> &'static str {
        "state-exchange"
    }
    fn strategy(&self, _t: Tier) -> BoxedStrategy<ExchangeCase> {
        let side = |own_addr: u16| {
            (1..4u16, any::<u64>()).prop_flat_map(move |(own_gen, rng_seed)| {
                // the other side's address is third-party knowledge here
                let other = if own_addr == 0 { 5u16 } else { 0u16 };
                let u = prop_oneof![8 => upd(own_addr, own_gen), 1 => (0..4u16, 0..3u16, 0..3u8).prop_map(move |(gen, inc, state)| Upd { addr: other, gen, inc, state })];
                proptest::collection::vec(u, 0..16).prop_flat_map(move |updates| {
                    let n = updates.len().max(1);
                    let updates2 = if updates.is_empty() { vec![Upd { addr: 1, gen: 0, inc: 0, state: 0 }] } else { updates.clone() };
                    plan(n).prop_map(move |p| JoinCase { own_addr, own_gen, rng_seed, updates: updates2.clone(), plans: vec![p] })
                })
            })
        };
        (side(0), side(5), any::<bool>()).prop_map(|(a, b, reply)| ExchangeCase { a, b, reply }).boxed()
    }
    fn cases(&self, tier: Tier) -> u64 {
        tier.pick(50_000, 1_000_000)
    }
    fn exec(&self, c: &ExchangeCase, out: &mut CaseOut) -> Result<(), Fail> {
        exec_exchange(c, out)
    }
}

// ---------------------------------------------------------------------------------------
// Bounded exhaustive: every sequence of length <= L over 18 updates of one address
// ---------------------------------------------------------------------------------------

fn alphabet() -> Vec<Upd> {
    let mut v = Vec::new();
    for gen in [1u16, 2] {
        for inc in [0u16, 1, u16::MAX] {
            for state in 0..3u8 {
                v.push(Upd { addr: 1, gen, inc, state });
            }
        }
    }
    v
}

fn exhaustive_case(mut i: u64, maxlen: u32, alpha: &[Upd]) -> JoinCase {
    // lengths 1..=maxlen laid out consecutively
    let a = alpha.len() as u64;
    let mut len = 1u32;
    loop {
        let block = a.pow(len);
        if i < block || len == maxlen {
            break;
        }
        i -= block;
        len += 1;
    }
    let mut updates = Vec::new();
    for _ in 0..len {
        updates.push(alpha[(i % a) as usize]);
        i /= a;
    }
    let n = updates.len();
    JoinCase {
        own_addr: 0,
        own_gen: 1,
        rng_seed: 11,
        updates,
        plans: vec![
            Plan { order: (0..n).collect(), cut: vec![true; n], broadcast: vec![true; n], via_gossip: vec![false; n] },
            Plan { order: (0..n).collect(), cut: vec![false; n], broadcast: vec![true; n], via_gossip: vec![true; n] },
        ],
    }
}

pub fn run(ctx: &Ctx, report: &mut Report) -> EvidenceMeta {
    let alpha = alphabet();
    let maxlen = ctx.tier.pick(4u32, 5u32);
    let total: u64 = (1..=maxlen).map(|l| (alpha.len() as u64).pow(l)).sum();
    ctx.run_enum("exhaustive-sequences-one-address", total, |i| exhaustive_case(i, maxlen, &alpha), exec_join, report, true);
    report.extra.insert("exhaustive_sequences".into(), json!({"alphabet": alpha.len(), "max_length": maxlen, "sequences": total, "note": "every ordering and duplication of every multiset of <= max_length updates over 2 generations x incarnations {0,1,MAX} x 3 states of one address is a member of this set"}));
    ctx.run_part(&JoinPart, report);
    ctx.run_part(&ExchangePart, report);
    EvidenceMeta {
        level: "exploration",
        rule: "(1) complete enumeration of every update sequence up to the stated length over an 18-letter alphabet (one address, 2 generations, incarnations {0,1,MAX}, 3 states), each delivered one update per call and as one Gossip datagram; (2) proptest multisets of 1..24 updates over 4 third-party addresses x 4 generations plus other generations of the instance's own address, boundary and random incarnations, each delivered through 2..6 plans (random permutation, random duplication, random split into apply_many calls with random do_broadcast or into Gossip datagrams from an active sender); (3) pairs of instances brought to independent reachable states, then full-state exchange in both directions (simultaneous or as a reply). Oracle: a 30-line lattice model - per address the maximum of (generation, Down > (incarnation, Suspect > Alive)) - must equal the view read through iter_membership_state() (identity, state, incarnation unless Down) after every plan; every record only moves up call by call; re-applying the own full state changes neither view, num_members, updates_backlog nor emits MemberUp/MemberDown/Rename; after an exchange both instances hold the join on every third-party address. Non-trivial: the multiset holds a pair not ordered by arrival alone (same address with different generation, equal incarnation Alive vs Suspect, Down vs a non-Down) and >= 2 plans; distinct = the deduplicated sorted multiset."
            .into(),
        assumptions: vec![
            "harness identity: generations are totally ordered per address (win_addr_conflict = greater generation)".into(),
            "updates naming the instance's exact current identity are C10's subject and are not generated here".into(),
        ],
    }
}

pub fn replay(part_name: &str, case: &Value) -> Option<Result<(), Fail>> {
    match part_name {
        "multiset-plans" => Some(replay_with(&JoinPart, case)),
        "state-exchange" => Some(replay_with(&ExchangePart, case)),
        "exhaustive-sequences-one-address" => Some((|| {
            let c: JoinCase = serde_json::from_value(case.clone()).map_err(|e| Fail::new("replay:bad-file", e.to_string()))?;
            exec_join(&c, &mut CaseOut::default())
        })()),
        _ => None,
    }
}
