//! C03 — Completeness: crashed or departed members are reported Down everywhere, bounded.
use crate::cluster::*;
use crate::engine::*;
use crate::ensure;
use crate::ident::*;
use crate::inst::Call;
use crate::sim::*;
use foca::OwnedNotification as N;
use proptest::prelude::*;
use serde::{Deserialize, Serialize};
use serde_json::{json, Value};
use std::collections::{BTreeMap, BTreeSet};

#[derive(Clone, Debug, Serialize, Deserialize)]
pub struct C03Case {
    pub spec: ClusterSpec,
    /// (raw node selector, leaves gracefully?) — mapped to a non-empty proper subset
    pub fail: Vec<(u16, bool)>,
    /// fault points: event offsets k0, k0+stride, ... inside the window are all executed
    pub k0: u32,
    pub stride: u32,
}

fn failing_set(c: &C03Case) -> Vec<(usize, bool)> {
    let n = c.spec.n as usize;
    let mut out: Vec<(usize, bool)> = Vec::new();
    for (raw, leave) in &c.fail {
        let i = ((*raw as usize) * n) >> 16;
        if out.len() + 1 < n && !out.iter().any(|(j, _)| *j == i) {
            out.push((i, *leave));
        }
    }
    if out.is_empty() {
        out.push((n - 1, c.fail.first().map(|f| f.1).unwrap_or(false)));
    }
    out
}

fn no_trouble(sim: &Sim, info: &StepInfo) -> Result<(), Fail> {
    panic_or_err(sim, info, "C03", true)
}

/// Forms the cluster and lets it settle. Err(()) means "did not form" (discarded, counted).
fn formed(spec: &ClusterSpec) -> Result<Option<(Sim, u64)>, Fail> {
    let period = spec.period_us();
    let (mut sim, t_done) = form(spec, no_trouble)?;
    let limit = t_done + (6 * spec.n as u64 + 20) * period;
    let mut t = t_done + period;
    loop {
        sim.run_until(t, no_trouble)?;
        if sim.fully_converged(true) {
            return Ok(Some((sim, t)));
        }
        if t > limit {
            return Ok(None);
        }
        t += period;
    }
}

struct Outcome {
    classes: Vec<&'static str>,
    worst_detection_us: u64,
    events: u64,
}

fn run_fault(c: &C03Case, k: u64, fails: &[(usize, bool)]) -> Result<Option<Outcome>, Fail> {
    let spec = &c.spec;
    let n = spec.n as u64;
    let period = spec.period_us();
    let Some((mut sim, _t_formed)) = formed(spec)? else { return Ok(None) };
    // advance k events
    let base = sim.steps;
    while sim.steps < base + k {
        match sim.step() {
            Some(info) => no_trouble(&sim, &info)?,
            None => break,
        }
    }
    let t_fault = sim.now;
    let failed: BTreeSet<usize> = fails.iter().map(|f| f.0).collect();
    let survivors: Vec<usize> = (0..spec.n as usize).filter(|i| !failed.contains(i)).collect();
    let ids: Vec<Id> = (0..spec.n as usize).map(|i| sim.identity(i)).collect();
    // who listed whom as active at the fault instant
    let listed: BTreeMap<usize, BTreeSet<Id>> = survivors.iter().map(|s| (*s, sim.active_ids(*s))).collect();
    let mut classes: Vec<&'static str> = Vec::new();
    // mid-probe classification (hook): is a failing member currently a probe target / prober?
    for (f, _) in fails {
        let snap = sim.nodes[*f].inst.foca.verif_snapshot();
        if snap.probe_target.is_some() {
            classes.push("failed_member_was_probing");
        }
        for s in &survivors {
            let sn = sim.nodes[*s].inst.foca.verif_snapshot();
            if sn.probe_target.as_ref().map(|m| *m.id()) == Some(ids[*f]) {
                classes.push("failed_member_was_probe_target");
            }
            if sn.probe_indirect.contains(&ids[*f]) {
                classes.push("failed_member_was_relay");
            }
        }
    }
    if fails.len() >= 2 {
        classes.push("two_or_more_failures");
    }
    // apply the fault
    let mut leave_sends: BTreeMap<usize, (u64, u64)> = BTreeMap::new(); // node -> [first index, end index)
    for (f, leave) in fails {
        if *leave {
            let info = sim.call(*f, Call::Leave);
            no_trouble(&sim, &info)?;
            ensure!(info.res_ok, "C03:leave-error", "leave_cluster returned {:?}", info.err);
            ensure!(info.notes.iter().any(|x| matches!(x, N::Defunct)), "C03:leave-not-defunct", "leave_cluster did not make node{} Defunct", f);
            sim.nodes[*f].left_at = Some(sim.now);
            leave_sends.insert(*f, (info.first_sent_index, sim.sent_count));
            classes.push("graceful_leave");
        } else {
            sim.crash(*f);
            classes.push("crash");
        }
    }
    let deadline = t_fault + (2 * n + 1) * period + spec.cfg.suspect_to_down_ms as u64 * MS;
    let mut down_at: BTreeMap<(usize, Id), u64> = BTreeMap::new();
    let mut learned_by_gossip_only = false;
    let res: Result<(), Fail> = sim.run_until(deadline, |sim, info| {
        no_trouble(sim, info)?;
        let node = info.node;
        if failed.contains(&node) {
            // a member that left stops answering probes: only TurnUndead courtesy replies are tolerated
            for (to, kind) in &info.sent {
                ensure!(
                    *kind == "TurnUndead",
                    "C03:departed-member-still-talks",
                    "node{} left the cluster at t={:?} but sent {} to {} at t={}us while handling {} {:?}",
                    node,
                    sim.nodes[node].left_at,
                    kind,
                    to,
                    info.t,
                    info.call_kind,
                    info.delivered_kind
                );
            }
            return Ok(());
        }
        for x in &info.notes {
            match x {
                N::MemberDown(id) => {
                    let is_failed = fails.iter().any(|(f, _)| ids[*f] == *id);
                    ensure!(
                        is_failed,
                        "C03:survivor-declared-down",
                        "node{} declared surviving member {} Down at t={}us\n{}",
                        node,
                        id,
                        info.t,
                        sim.describe()
                    );
                    down_at.entry((node, *id)).or_insert(info.t);
                    if info.call_kind == "handle_data" {
                        learned_by_gossip_only = true;
                    }
                }
                N::Defunct | N::Rejoin(_) => {
                    return Err(Fail::new("C03:survivor-told-it-is-down", format!("surviving node{} notified {:?} at t={}us\n{}", node, x, info.t, sim.describe())));
                }
                _ => {}
            }
        }
        // told members report the leaver Down in the very call that processes its farewell gossip
        if let Some((from, idx)) = info.delivered_from {
            if let Some((a, b)) = leave_sends.get(&from) {
                // "told" = the datagram really carries the Down update (with max_transmissions = 1 only the
                // first farewell datagram does)
                let told = info
                    .delivered_bytes
                    .as_ref()
                    .and_then(|b| crate::wire::parse(b, sim.codec).ok())
                    .map(|d| d.members.unwrap_or_default().iter().any(|m| *m.id() == ids[from] && m.state() == foca::State::Down))
                    .unwrap_or(false);
                if told && idx >= *a && idx < *b && listed.get(&node).map(|l| l.contains(&ids[from])).unwrap_or(false) {
                    let already = down_at.get(&(node, ids[from])).map(|t| *t < info.t).unwrap_or(false);
                    ensure!(
                        already || info.notes.iter().any(|x| matches!(x, N::MemberDown(id) if *id == ids[from])),
                        "C03:leave-not-reported-immediately",
                        "node{} processed the farewell gossip of {} at t={}us without notifying MemberDown",
                        node,
                        ids[from],
                        info.t
                    );
                }
            }
        }
        Ok(())
    });
    res?;
    let mut worst = 0u64;
    for s in &survivors {
        for (f, _) in fails {
            if listed[s].contains(&ids[*f]) {
                match down_at.get(&(*s, ids[*f])) {
                    Some(t) => worst = worst.max(*t - t_fault),
                    None => {
                        return Err(Fail::new(
                            "C03:failure-not-detected-in-time",
                            format!(
                                "node{} listed {} as active when it {} at t={}us (event offset {}), but did not notify MemberDown within (2n+1) probe periods + suspect_to_down_after = {}us\n{}",
                                s,
                                ids[*f],
                                if fails.iter().any(|(x, l)| x == f && *l) { "left" } else { "crashed" },
                                t_fault,
                                k,
                                deadline - t_fault,
                                sim.describe()
                            ),
                        ))
                    }
                }
            }
        }
    }
    if !learned_by_gossip_only {
        classes.push("every_detection_by_own_probe");
    }
    Ok(Some(Outcome { classes, worst_detection_us: worst, events: sim.steps }))
}

/// A member that leaves while it is still joining: it has announced itself, the Feed has not arrived yet
/// (so it has no active member and is not connected), then it calls leave_cluster after k more events.
fn run_early_leave(spec: &ClusterSpec, k: u64) -> Result<Option<u64>, Fail> {
    if spec.n < 3 {
        return Ok(None);
    }
    let mut base = spec.clone();
    base.n = spec.n - 1;
    let Some((mut sim, _)) = formed(&base)? else { return Ok(None) };
    let n = spec.n as u64;
    let period = spec.period_us();
    let j = (spec.n - 1) as usize;
    let idx = sim.add_node(ClusterSpec::addr(j), 0, spec.renew, &spec.cfg, crate::engine::splitmix(spec.seed, 77), crate::handler::HandlerSpec::OFF);
    let seed_member = (k as usize) % j;
    let to = sim.identity(seed_member);
    let info = sim.call(idx, Call::Announce(to));
    no_trouble(&sim, &info)?;
    let leaver = sim.identity(idx);
    let start = sim.steps;
    while sim.steps < start + k {
        match sim.step() {
            Some(i) => no_trouble(&sim, &i)?,
            None => break,
        }
    }
    let t_fault = sim.now;
    // the bound speaks about the members that list the leaver as active when it leaves; members that hear a
    // stale Alive about it later start their own detection then and are not judged here
    let listed_at_leave: Vec<usize> = (0..j).filter(|s| sim.active_ids(*s).contains(&leaver)).collect();
    let info = sim.call(idx, Call::Leave);
    no_trouble(&sim, &info)?;
    ensure!(info.res_ok, "C03:leave-error", "leave_cluster returned {:?}", info.err);
    ensure!(
        info.notes.iter().any(|x| matches!(x, N::Defunct)),
        "C03:leave-not-defunct",
        "leave_cluster called {} events after announcing (connected: {}) did not make the instance Defunct",
        k,
        sim.nodes[idx].inst.foca.num_members() > 0
    );
    sim.nodes[idx].left_at = Some(sim.now);
    let deadline = t_fault + (2 * n + 1) * period + spec.cfg.suspect_to_down_ms as u64 * MS;
    let mut listed_after: BTreeSet<usize> = BTreeSet::new();
    let mut down_at: BTreeMap<usize, u64> = BTreeMap::new();
    let res: Result<(), Fail> = sim.run_until(deadline, |sim, info| {
        no_trouble(sim, info)?;
        if info.node == idx {
            for (to, kind) in &info.sent {
                ensure!(
                    *kind == "TurnUndead",
                    "C03:departed-member-still-talks",
                    "node{} left the cluster (while joining) but sent {} to {} at t={}us while handling {} {:?}",
                    idx,
                    kind,
                    to,
                    info.t,
                    info.call_kind,
                    info.delivered_kind
                );
            }
            return Ok(());
        }
        for x in &info.notes {
            match x {
                N::MemberUp(id) if *id == leaver => {
                    listed_after.insert(info.node);
                }
                N::MemberDown(id) if *id == leaver => {
                    down_at.insert(info.node, info.t);
                }
                N::MemberDown(id) => {
                    return Err(Fail::new("C03:survivor-declared-down", format!("node{} declared surviving member {} Down", info.node, id)));
                }
                N::Defunct | N::Rejoin(_) => return Err(Fail::new("C03:survivor-told-it-is-down", format!("surviving node{} notified {:?}", info.node, x))),
                _ => {}
            }
        }
        Ok(())
    });
    res?;
    // whoever still lists the leaver as active at the deadline violates the bound (it learned of it after the leave at the latest)
    for s in listed_at_leave {
        let lists = sim.active_ids(s).contains(&leaver);
        ensure!(
            !lists,
            "C03:failure-not-detected-in-time",
            "node{} still lists {} (which left while joining, {} events after its Announce) as active {}us after the leave\n{}",
            s,
            leaver,
            k,
            deadline - t_fault,
            sim.describe()
        );
    }
    Ok(Some(sim.steps))
}

pub fn exec(c: &C03Case, out: &mut CaseOut) -> Result<(), Fail> {
    let spec = &c.spec;
    let fails = failing_set(c);
    // window: one full probe rotation of every member, measured in events on the fault-free continuation
    let Some((mut probe, t0)) = formed(spec)? else {
        out.class("discarded_cluster_did_not_form");
        return Ok(());
    };
    let base = probe.steps;
    probe.run_until(t0 + (spec.n as u64 + 2) * spec.period_us(), no_trouble)?;
    let window = (probe.steps - base).max(1);
    drop(probe);
    let stride = c.stride.max(1) as u64;
    let mut k = c.k0 as u64 % stride;
    let mut points = 0u64;
    while k < window {
        match run_fault(c, k, &fails)? {
            None => {
                out.class("discarded_cluster_did_not_form");
                return Ok(());
            }
            Some(o) => {
                points += 1;
                out.sub_evaluations += 1;
                out.max("worst_detection_ms", o.worst_detection_us / 1000);
                out.max("worst_detection_percent_of_bound", o.worst_detection_us * 100 / ((2 * spec.n as u64 + 1) * spec.period_us() + spec.cfg.suspect_to_down_ms as u64 * MS));
                let mut cl = o.classes.clone();
                cl.sort();
                cl.dedup();
                for c in &cl {
                    out.class(c);
                }
                let nontrivial = cl.iter().any(|c| matches!(*c, "failed_member_was_probing" | "failed_member_was_probe_target" | "failed_member_was_relay" | "two_or_more_failures" | "every_detection_by_own_probe"));
                if nontrivial {
                    out.nontrivial((spec.n, cl, fails.len(), spec.cfg.max_tx.min(4), k % 16));
                }
                let _ = o.events;
            }
        }
        k += stride;
    }
    // leave while still joining: every event offset 0..=7 after the Announce
    for k in 0..8u64 {
        if run_early_leave(spec, k)?.is_some() {
            out.sub_evaluations += 1;
            out.class("leave_while_joining");
        }
    }
    out.class_n("fault_points", points);
    if out.want_sample {
        out.sample = Some(json!({"spec": spec, "failing": fails, "window_events": window, "stride": stride, "fault_points": points}));
    }
    Ok(())
}

pub struct FaultPart;
impl Part for FaultPart {
    type Case = C03Case;
    fn name(&self) -> &'static str {
        "fail-at-every-event-index"
    }
    fn strategy(&self, tier: Tier) -> BoxedStrategy<C03Case> {
        let mut p = ClusterProfile::default();
        p.n = (2, 10);
        p.max_tx = (1, 10);
        p.join_formation = 1;
        p.inject_formation = 2;
        let stride = tier.pick(8u32, 1u32);
        (cluster_spec(&p), proptest::collection::vec((any::<u16>(), any::<bool>()), 1..4), 0..64u32)
            .prop_map(move |(mut spec, fail, k0)| {
                // real joins need a reliable formation
                if matches!(spec.formation, Formation::Join { .. }) && spec.cfg.periodic_announce.is_none() {
                    spec.cfg.periodic_announce = Some(crate::inst::Periodic { every_ms: 2000, num: 1 });
                }
                C03Case { spec, fail, k0, stride }
            })
            .boxed()
    }
    fn cases(&self, tier: Tier) -> u64 {
        tier.pick(4_000, 6_000)
    }
    fn exec(&self, c: &C03Case, out: &mut CaseOut) -> Result<(), Fail> {
        exec(c, out)
    }
    fn max_shrink_iters(&self) -> u32 {
        400
    }
}

pub fn run(ctx: &Ctx, report: &mut Report) -> EvidenceMeta {
    ctx.run_part(&FaultPart, report);
    EvidenceMeta {
        level: "fault_enumeration",
        rule: "simulated clusters (n 2..=10, formed by real joins or by injected full state at random offsets, generated latencies / seeds / configurations incl. max_transmissions 1..10) in which a generated non-empty proper subset of members fails - each either crashing or calling leave_cluster - at an event index k of the fault-free continuation; for every base run the index is enumerated over a window of one full probe rotation (n+2 probe periods of events): every index in the thorough tier, every 8th (random phase) in the quick tier; in addition a further member announces itself and calls leave_cluster 0..7 events later, i.e. before or just after the Feed arrives. evaluations = base runs, sub_evaluations = fault points executed. Oracle: every survivor that listed a failed member as active at the fault instant notifies MemberDown for it no later than (2n+1) probe periods + suspect_to_down_after after the fault; members told by a leaver notify MemberDown in the very call that processes its farewell gossip; a member that left sends nothing but TurnUndead afterwards; no MemberDown about a survivor, no Defunct/Rejoin at a survivor. Non-trivial: the failed member was mid-probe (prober, target or relay), >= 2 members failed, or every detection came from the survivor's own probe; distinct = (n, classes, #failures, max_tx class, index phase)."
            .into(),
        assumptions: vec![
            "transport and timers are otherwise fault-free (latency < probe_rtt/4, timers on time)".into(),
            "clusters that do not reach full mutual knowledge before the fault are discarded and counted".into(),
        ],
    }
}

pub fn replay(part_name: &str, case: &Value) -> Option<Result<(), Fail>> {
    match part_name {
        "fail-at-every-event-index" => Some(replay_with(&FaultPart, case)),
        _ => None,
    }
}
