//! C12 — A probe succeeds only on genuine evidence; indirect probing is routed correctly.
use crate::codec::CodecKind;
use crate::engine::*;
use crate::ensure;
use crate::handler::HandlerSpec;
use crate::hist::*;
use crate::ident::*;
use crate::inst::*;
use crate::model;
use crate::ops::*;
use crate::rt::{sends, timers, Ev};
use crate::wire;
use foca::{Message, State, Timer};
use proptest::prelude::*;
use serde::{Deserialize, Serialize};
use serde_json::{json, Value};

#[derive(Clone, Debug)]
struct Round {
    target: Id,
    target_inc: u16,
    p: u8,
    epoch: u64,
    helpers: Vec<Id>,
    helpers_acked: Vec<Id>,
    direct: bool,
    sip_fired: bool,
    near_miss: u32,
}

impl Round {
    fn evidence(&self) -> bool {
        self.direct || !self.helpers_acked.is_empty()
    }
}

pub struct Mon {
    codec: CodecKind,
    conn: ConnTracker,
    round: Option<Round>,
    // stats
    rounds_with_evidence: u64,
    rounds_without: u64,
    rounds_aborted: u64,
    near_miss_rounds: u64,
    relay_checks: u64,
    ping_replies: u64,
    nontrivial: Vec<u64>,
    calls: u64,
}

impl Mon {
    pub fn new(codec: CodecKind) -> Self {
        Mon {
            codec,
            conn: ConnTracker::default(),
            round: None,
            rounds_with_evidence: 0,
            rounds_without: 0,
            rounds_aborted: 0,
            near_miss_rounds: 0,
            relay_checks: 0,
            ping_replies: 0,
            nontrivial: Vec::new(),
            calls: 0,
        }
    }
}

fn is_relay(m: &Message<Id>) -> bool {
    matches!(m, Message::IndirectPing { .. } | Message::IndirectAck { .. } | Message::ForwardedAck { .. })
}

impl Monitor for Mon {
    fn on_call(&mut self, rec: &CallRec, _origin: &Origin, runner: &Runner) -> Result<(), Fail> {
        self.calls += 1;
        let cfg = &runner.inst.cfg;
        let epoch_before = self.conn.epoch;
        let state_before = self.conn.state;
        self.conn.absorb(rec);
        let own = rec.before.identity;
        let token = rec.before.snap.timer_token;
        let sent = sent_dgrams(rec, self.codec, "C12")?;

        match &rec.call {
            // ------------------------------------------------------------ inputs that may be evidence
            Call::Data(bytes) => {
                let c = model::classify(&rec.before, cfg.max_packet as usize, self.codec, bytes);
                if let (true, Some(d)) = (c.accepted(), &c.dgram) {
                    let src = d.header.src;
                    let connected_after_updates = rec.after.conn() == 1 && self.conn.epoch == epoch_before;
                    // --- evidence bookkeeping
                    if let Some(r) = self.round.as_mut() {
                        if r.epoch == epoch_before {
                            match &d.header.message {
                                Message::Ack(q) => {
                                    let right_sender = src == r.target;
                                    let right_no = *q == r.p;
                                    if right_sender && right_no && c.sender_active && connected_after_updates {
                                        if r.direct {
                                            r.near_miss += 1; // duplicate
                                        }
                                        r.direct = true;
                                    } else if right_sender || right_no {
                                        r.near_miss += 1;
                                    }
                                }
                                Message::ForwardedAck { origin, probe_number } => {
                                    let asked = r.helpers.contains(&src);
                                    let fresh = !r.helpers_acked.contains(&src);
                                    let right_no = *probe_number == r.p;
                                    if asked && fresh && right_no && c.sender_active && connected_after_updates && *origin != own {
                                        r.helpers_acked.push(src);
                                    } else if asked || right_no {
                                        r.near_miss += 1;
                                    }
                                }
                                _ => {}
                            }
                        }
                    }
                    // --- replies and relays (only when the instance is connected when it reacts)
                    let reacts = c.sender_active && rec.after.conn() == 1 && rec.after.identity == own;
                    let relays: Vec<&SentDgram> = sent.iter().filter(|s| is_relay(&s.dgram.header.message)).collect();
                    let acks: Vec<&SentDgram> = sent.iter().filter(|s| matches!(s.dgram.header.message, Message::Ack(_))).collect();
                    match &d.header.message {
                        Message::Ping(q) if reacts => {
                            self.ping_replies += 1;
                            ensure!(
                                acks.len() == 1 && *acks[0].to == src && acks[0].dgram.header.message == Message::Ack(*q),
                                "C12:ping-not-acked",
                                "Ping({q}) from active {src} must be answered by exactly one Ack({q}) to it; sent: {:?}",
                                sent.iter().map(|s| (s.to, s.dgram.header.message.clone())).collect::<Vec<_>>()
                            );
                            ensure!(relays.is_empty(), "C12:unexpected-relay", "Ping caused relay messages");
                        }
                        Message::PingReq { target, probe_number } if reacts => {
                            self.relay_checks += 1;
                            if *target == own {
                                ensure!(rec.res.err() == Some(ErrKind::IndirectForOurselves), "C12:self-relay-accepted", "PingReq naming the instance itself as target returned {:?}", rec.res);
                                ensure!(relays.is_empty(), "C12:self-relay-accepted", "PingReq naming the instance itself was relayed");
                            } else {
                                ensure!(
                                    relays.len() == 1
                                        && *relays[0].to == *target
                                        && relays[0].dgram.header.message == Message::IndirectPing { origin: src, probe_number: *probe_number },
                                    "C12:pingreq-relay",
                                    "PingReq{{target={target}, no={probe_number}}} from {src} must be relayed as IndirectPing{{origin={src}, no={probe_number}}} to {target}; sent {:?}",
                                    sent.iter().map(|s| (s.to, s.dgram.header.message.clone())).collect::<Vec<_>>()
                                );
                            }
                        }
                        Message::IndirectPing { origin, probe_number } if reacts => {
                            self.relay_checks += 1;
                            if *origin == own {
                                ensure!(rec.res.err() == Some(ErrKind::IndirectForOurselves) && relays.is_empty(), "C12:self-relay-accepted", "IndirectPing with the instance as origin: {:?}", rec.res);
                            } else {
                                ensure!(
                                    relays.len() == 1
                                        && *relays[0].to == src
                                        && relays[0].dgram.header.message == Message::IndirectAck { target: *origin, probe_number: *probe_number },
                                    "C12:indirectping-reply",
                                    "IndirectPing{{origin={origin}, no={probe_number}}} from {src} must be answered by IndirectAck{{target={origin}, no={probe_number}}} to {src}; sent {:?}",
                                    sent.iter().map(|s| (s.to, s.dgram.header.message.clone())).collect::<Vec<_>>()
                                );
                            }
                        }
                        Message::IndirectAck { target, probe_number } if reacts => {
                            self.relay_checks += 1;
                            if *target == own {
                                ensure!(rec.res.err() == Some(ErrKind::IndirectForOurselves) && relays.is_empty(), "C12:self-relay-accepted", "IndirectAck with the instance as target: {:?}", rec.res);
                            } else {
                                ensure!(
                                    relays.len() == 1
                                        && *relays[0].to == *target
                                        && relays[0].dgram.header.message == Message::ForwardedAck { origin: src, probe_number: *probe_number },
                                    "C12:indirectack-relay",
                                    "IndirectAck{{target={target}, no={probe_number}}} from {src} must be relayed as ForwardedAck{{origin={src}, no={probe_number}}} to {target}; sent {:?}",
                                    sent.iter().map(|s| (s.to, s.dgram.header.message.clone())).collect::<Vec<_>>()
                                );
                            }
                        }
                        Message::ForwardedAck { origin, .. } if reacts => {
                            if *origin == own {
                                ensure!(rec.res.err() == Some(ErrKind::IndirectForOurselves), "C12:self-relay-accepted", "ForwardedAck with the instance as origin returned {:?}", rec.res);
                            }
                            ensure!(relays.is_empty() && acks.is_empty(), "C12:unexpected-relay", "ForwardedAck caused a reply");
                        }
                        _ => {
                            let may_react = c.sender_active && rec.after.conn() == 1;
                            if !may_react {
                                // a defunct/idle instance, or an inactive sender: no probe replies at all
                                ensure!(
                                    relays.is_empty() && acks.is_empty(),
                                    "C12:reply-while-not-reacting",
                                    "instance (connection {:?}) answered a probe message from {} (active: {}): {:?}",
                                    self.conn.state,
                                    src,
                                    c.sender_active,
                                    sent.iter().map(|s| (s.to, s.dgram.header.message.clone())).collect::<Vec<_>>()
                                );
                            }
                        }
                    }
                }
            }
            // ------------------------------------------------------------ the indirect stage
            Call::Timer(Timer::SendIndirectProbe { probed_id, token: tk }) if *tk == token => {
                let reqs: Vec<&SentDgram> = sent.iter().filter(|s| matches!(s.dgram.header.message, Message::PingReq { .. })).collect();
                match self.round.as_mut() {
                    Some(r) if r.epoch == epoch_before && r.target == *probed_id && !r.sip_fired => {
                        r.sip_fired = true;
                        let t_active = matches!(rec.before.record_of(&r.target), Some(m) if m.state() != State::Down);
                        if r.direct || !t_active {
                            ensure!(
                                reqs.is_empty(),
                                "C12:pingreq-although-acked-or-inactive",
                                "indirect probe requests sent although {} (ack received: {}, target active: {})",
                                if r.direct { "the target already acked" } else { "the target is no longer active" },
                                r.direct,
                                t_active
                            );
                        }
                        ensure!(
                            reqs.len() <= cfg.num_indirect as usize,
                            "C12:too-many-pingreq",
                            "{} PingReq sent, num_indirect_probes={}",
                            reqs.len(),
                            cfg.num_indirect
                        );
                        for q in &reqs {
                            ensure!(*q.to != r.target, "C12:pingreq-to-target", "PingReq sent to the probed member {} itself", r.target);
                            ensure!(!r.helpers.contains(q.to), "C12:pingreq-duplicate-helper", "two PingReq to {}", q.to);
                            ensure!(
                                matches!(rec.before.record_of(q.to), Some(m) if m.state() != State::Down),
                                "C12:pingreq-to-inactive",
                                "PingReq sent to {} which is not an active member",
                                q.to
                            );
                            ensure!(
                                q.dgram.header.message == Message::PingReq { target: r.target, probe_number: r.p },
                                "C12:pingreq-wrong-fields",
                                "PingReq carries {:?}, expected target {} and probe number {}",
                                q.dgram.header.message,
                                r.target,
                                r.p
                            );
                            r.helpers.push(*q.to);
                        }
                    }
                    _ => {
                        ensure!(reqs.is_empty(), "C12:pingreq-outside-round", "SendIndirectProbe for {} outside its round sent PingReq", probed_id);
                    }
                }
            }
            // ------------------------------------------------------------ end of round / start of the next
            Call::Timer(Timer::ProbeRandomMember(tk)) if *tk == token && state_before == ConnState::Active => {
                let downs: Vec<(&Timer<Id>, _)> = timers(&rec.evs).filter(|(t, _)| matches!(t, Timer::ChangeSuspectToDown { .. })).collect();
                if let Some(r) = self.round.take() {
                    if r.epoch != epoch_before {
                        self.rounds_aborted += 1;
                        ensure!(downs.is_empty(), "C12:suspicion-after-abort", "a probe round aborted by an epoch change still raised {:?}", downs);
                    } else if !r.sip_fired {
                        // out of the statement's scope here (timer order is C13's subject); nothing judged
                    } else if r.evidence() {
                        self.rounds_with_evidence += 1;
                        let before_t = rec.before.record_of(&r.target);
                        let after_t = rec.after.record_of(&r.target);
                        let became_suspect = matches!((before_t, after_t), (Some(b), Some(a)) if b.state() != State::Suspect && a.state() == State::Suspect);
                        ensure!(
                            !became_suspect && !downs.iter().any(|(t, _)| matches!(t, Timer::ChangeSuspectToDown { member_id, .. } if *member_id == r.target)),
                            "C12:suspected-despite-evidence",
                            "probe round for {} (no {}) had genuine evidence (direct ack: {}, forwarded acks from {:?}) yet the member was suspected",
                            r.target,
                            r.p,
                            r.direct,
                            r.helpers_acked
                        );
                    } else {
                        self.rounds_without += 1;
                        let before_t = rec.before.record_of(&r.target);
                        let same = matches!(before_t, Some(b) if b.state() != State::Down && b.incarnation() == r.target_inc);
                        if same {
                            let after_t = rec.after.record_of(&r.target);
                            ensure!(
                                matches!(after_t, Some(a) if a.state() == State::Suspect),
                                "C12:not-suspected-without-evidence",
                                "probe round for {} (no {}) ended without any Ack({}) from it nor ForwardedAck({}) from an asked helper {:?}, the member is still active at incarnation {}, yet it is {:?} afterwards",
                                r.target,
                                r.p,
                                r.p,
                                r.p,
                                r.helpers,
                                r.target_inc,
                                after_t
                            );
                            let mine: Vec<_> = downs
                                .iter()
                                .filter(|(t, _)| matches!(t, Timer::ChangeSuspectToDown { member_id, incarnation, token: k } if *member_id == r.target && *incarnation == r.target_inc && *k == rec.after.snap.timer_token))
                                .collect();
                            ensure!(
                                mine.len() == 1 && downs.len() == 1,
                                "C12:suspicion-timeout-count",
                                "failed probe of {} must schedule exactly one suspicion timeout for it (incarnation {}, current token); scheduled: {:?}",
                                r.target,
                                r.target_inc,
                                downs
                            );
                            // ... and it is a timeout of suspect_to_down_after: the time the member has to refute
                            let want = std::time::Duration::from_millis(runner.inst.cfg.suspect_to_down_ms as u64);
                            ensure!(
                                *mine[0].1 == want,
                                "C12:suspicion-timeout-delay",
                                "the suspicion timeout for {} was scheduled after {:?}, suspect_to_down_after is {:?}",
                                r.target,
                                mine[0].1,
                                want
                            );
                        }
                    }
                    if r.near_miss > 0 || r.epoch != epoch_before {
                        self.near_miss_rounds += 1;
                        self.nontrivial.push(hash_of(&(r.near_miss.min(5), r.direct, r.helpers_acked.len(), r.helpers.len(), r.epoch != epoch_before, r.sip_fired)));
                    }
                } else {
                    ensure!(downs.is_empty(), "C12:suspicion-without-round", "ProbeRandomMember scheduled {:?} although no probe round was open", downs);
                }
                // the new round
                let pings: Vec<&SentDgram> = sent.iter().filter(|s| matches!(s.dgram.header.message, Message::Ping(_))).collect();
                if self.conn.epoch == epoch_before && rec.res.is_ok() {
                    if let [p] = pings.as_slice() {
                        let Message::Ping(n) = p.dgram.header.message else { unreachable!() };
                        let inc = rec.after.record_of(p.to).map(|m| m.incarnation()).unwrap_or(0);
                        self.round = Some(Round { target: *p.to, target_inc: inc, p: n, epoch: self.conn.epoch, helpers: vec![], helpers_acked: vec![], direct: false, sip_fired: false, near_miss: 0 });
                    }
                }
            }
            _ => {}
        }
        // hook cross-check: the ledger's idea of the round vs the instance's private probe state
        if let Some(r) = &self.round {
            if r.epoch == self.conn.epoch && rec.after.conn() == 1 {
                let s = &rec.after.snap;
                if let Some(t) = &s.probe_target {
                    ensure!(
                        *t.id() == r.target && s.probe_number == r.p,
                        "C12:ledger-vs-internal",
                        "ledger says round (target {}, no {}) but the instance probes ({}, no {})",
                        r.target,
                        r.p,
                        t.id(),
                        s.probe_number
                    );
                    ensure!(
                        s.probe_direct_ack == r.direct && s.probe_indirect_acks == r.helpers_acked.len(),
                        "C12:evidence-accounting-differs",
                        "by the statement's rule the round for {} (no {}) has direct ack = {} and {} forwarded acks from asked helpers, but the instance counted direct = {} and {} indirect",
                        r.target,
                        r.p,
                        r.direct,
                        r.helpers_acked.len(),
                        s.probe_direct_ack,
                        s.probe_indirect_acks
                    );
                }
            }
        }
        let _ = (sends(&rec.evs).count(), Ev::Note(foca::OwnedNotification::Idle));
        Ok(())
    }

    fn finish(&mut self, out: &mut CaseOut) {
        out.sub_evaluations += self.rounds_with_evidence + self.rounds_without + self.rounds_aborted;
        out.class_n("rounds_judged_with_evidence", self.rounds_with_evidence);
        out.class_n("rounds_judged_without_evidence", self.rounds_without);
        out.class_n("rounds_aborted", self.rounds_aborted);
        out.class_n("rounds_with_near_miss_or_abort", self.near_miss_rounds);
        out.class_n("relay_messages_checked", self.relay_checks);
        out.class_n("ping_replies_checked", self.ping_replies);
        out.nontrivial.append(&mut self.nontrivial);
    }
}

pub struct RoundsPart;

fn c12_op(p: &Profile) -> BoxedStrategy<Op> {
    let who = prop_oneof![
        5 => Just(IdSel::ProbeTarget),
        4 => (0..3u8).prop_map(IdSel::Helper),
        3 => any::<u16>().prop_map(IdSel::Rec),
        1 => (1..p.n_addr, 0..p.n_gen).prop_map(|(a, g)| IdSel::Abs(a, g)),
        1 => Just(IdSel::ProbeTargetGen(1)),
    ];
    let ackish = (who.clone(), no_sel(), any::<bool>(), id_sel(p), inc_sel(p), proptest::collection::vec(member_spec(p), 0..2)).prop_map(|(src, n, fwd, origin, inc, members)| {
        Op::Data(DataSpec {
            src,
            inc,
            dst: DstSel::Me,
            msg: if fwd { MsgSel::ForwardedAck(origin, n) } else { MsgSel::Ack(n) },
            members: Some(members),
            items: vec![],
            mangle: Mangle::None,
        })
    });
    let about_target = (who, prop_oneof![Just(IdSel::ProbeTarget), Just(IdSel::ProbeTargetGen(1)), Just(IdSel::Own)], inc_sel(p), 0..3u8).prop_map(|(src, id, inc, state)| {
        Op::Data(DataSpec { src, inc: IncSel::Rel(0), dst: DstSel::Me, msg: MsgSel::Gossip, members: Some(vec![MemberSpec { id, inc, state }]), items: vec![], mangle: Mangle::None })
    });
    prop_oneof![
        30 => ackish,
        8 => about_target,
        36 => Just(Op::FireNext),
        20 => op(p),
    ]
    .boxed()
}

impl Part for RoundsPart {
    type Case = Case;
    fn name(&self) -> &'static str {
        "probe-rounds"
    }
    fn strategy(&self, _t: Tier) -> BoxedStrategy<Case> {
        let mut p = Profile::default();
        p.in_order_only = true;
        p.any_order = false;
        p.n_addr = 7;
        p.n_gen = 3;
        p.max_len = 160;
        p.set_config = false;
        p.timers_weight = 30;
        let mut sp = SetupProfile::default();
        sp.periodic = false;
        sp.codecs = vec![CodecKind::Fix, CodecKind::Var];
        // start with a few members so that rounds begin early
        let join = (1..7u8).prop_map(|n| {
            (1..=n)
                .map(|a| Op::Data(DataSpec { src: IdSel::Abs(a, 0), inc: IncSel::Abs(0), dst: DstSel::Me, msg: MsgSel::Gossip, members: Some(vec![]), items: vec![], mangle: Mangle::None }))
                .collect::<Vec<_>>()
        });
        (setup(&sp), join, proptest::collection::vec(c12_op(&p), 5..p.max_len))
            .prop_map(|(setup, mut pre, ops)| {
                pre.extend(ops);
                Case { setup, ops: pre }
            })
            .boxed()
    }
    fn cases(&self, tier: Tier) -> u64 {
        tier.pick(90_000, 2_000_000)
    }
    fn exec(&self, c: &Case, out: &mut CaseOut) -> Result<(), Fail> {
        let mut m = Mon::new(c.setup.codec);
        run_history(c, &mut m, out)
    }
}

/// Many consecutive, correctly acknowledged probe rounds: the 8-bit probe number wraps around
/// (round 256 carries number 0) and every round must still count its Ack as evidence.
pub struct LongPart;
impl Part for LongPart {
    type Case = Case;
    fn name(&self) -> &'static str {
        "acked-rounds-across-probe-number-wrap"
    }
    fn strategy(&self, _t: Tier) -> BoxedStrategy<Case> {
        let mut sp = SetupProfile::default();
        sp.periodic = false;
        sp.codecs = vec![CodecKind::Fix, CodecKind::Var];
        (setup(&sp), 1..4u8, 260..330usize, proptest::collection::vec(any::<bool>(), 330))
            .prop_map(|(setup, members, rounds, direct)| {
                let mut ops: Vec<Op> = (1..=members)
                    .map(|a| Op::Data(DataSpec { src: IdSel::Abs(a, 0), inc: IncSel::Abs(0), dst: DstSel::Me, msg: MsgSel::Gossip, members: Some(vec![]), items: vec![], mangle: Mangle::None }))
                    .collect();
                ops.push(Op::FireNext); // first ProbeRandomMember
                for r in 0..rounds {
                    let ack = Op::Data(DataSpec { src: IdSel::ProbeTarget, inc: IncSel::Rel(0), dst: DstSel::Me, msg: MsgSel::Ack(NoSel::Cur), members: Some(vec![]), items: vec![], mangle: Mangle::None });
                    if direct[r] || members == 1 {
                        // Ack before the indirect stage
                        ops.push(ack);
                        ops.push(Op::FireNext);
                    } else {
                        // indirect stage first, then a ForwardedAck from the asked helper
                        ops.push(Op::FireNext);
                        ops.push(Op::Data(DataSpec { src: IdSel::Helper(0), inc: IncSel::Rel(0), dst: DstSel::Me, msg: MsgSel::ForwardedAck(IdSel::ProbeTarget, NoSel::Cur), members: Some(vec![]), items: vec![], mangle: Mangle::None }));
                    }
                    ops.push(Op::FireNext); // next ProbeRandomMember
                }
                Case { setup, ops }
            })
            .boxed()
    }
    fn cases(&self, tier: Tier) -> u64 {
        tier.pick(400, 20_000)
    }
    fn exec(&self, c: &Case, out: &mut CaseOut) -> Result<(), Fail> {
        let mut m = Mon::new(c.setup.codec);
        run_history(c, &mut m, out)?;
        // every member is still Alive: no round was lost
        Ok(())
    }
    fn max_shrink_iters(&self) -> u32 {
        300
    }
}

// ---------------------------------------------------------------------------------------
// Timers in any order, late and duplicated: whatever fires, an indirect request is only ever made
// for the member pinged last (the round in progress), never sent to it, only to active members
// ---------------------------------------------------------------------------------------

pub struct ReqMon {
    codec: CodecKind,
    requests: u64,
    stale_indirect_timers: u64,
    nontrivial: Vec<u64>,
}

impl Monitor for ReqMon {
    fn on_call(&mut self, rec: &CallRec, origin: &Origin, runner: &Runner) -> Result<(), Fail> {
        let sent = sent_dgrams(rec, self.codec, "C12")?;
        let reqs: Vec<_> = sent.iter().filter_map(|s| if let Message::PingReq { target, probe_number } = &s.dgram.header.message { Some((*s.to, *target, *probe_number)) } else { None }).collect();
        let timer_target = match &rec.call {
            Call::Timer(Timer::SendIndirectProbe { probed_id, .. }) => Some(*probed_id),
            _ => None,
        };
        if let (Some(t), Some((cur, _))) = (timer_target, runner.last_ping) {
            if t != cur || matches!(origin, Origin::Old(_)) {
                self.stale_indirect_timers += 1;
                self.nontrivial.push(hash_of(&("stale-indirect-timer", reqs.len().min(3), matches!(origin, Origin::Old(_)))));
            }
        }
        if reqs.is_empty() {
            return Ok(());
        }
        self.requests += reqs.len() as u64;
        ensure!(timer_target.is_some(), "C12:pingreq-outside-indirect-stage", "PingReq sent while handling {} (only the indirect-probe timer of the round in progress asks for help)", rec.call.kind());
        let Some((cur, no)) = runner.last_ping else {
            return Err(Fail::new("C12:pingreq-without-round", "PingReq sent although the instance never pinged anybody".to_string()));
        };
        let limit = runner.inst.cfg.num_indirect as usize;
        ensure!(reqs.len() <= limit, "C12:too-many-pingreq", "{} PingReq sent, num_indirect_probes is {}", reqs.len(), limit);
        let mut seen: Vec<Id> = Vec::new();
        for (to, target, n) in &reqs {
            ensure!(
                *target == cur && *n == no,
                "C12:pingreq-for-another-round",
                "PingReq(target {target}, number {n}) sent to {to} while the round in progress pinged {cur} with number {no} (timer delivered: {:?}, {})",
                rec.call,
                if matches!(origin, Origin::Old(_)) { "a duplicate" } else { "first delivery" }
            );
            ensure!(to != target && to.addr != target.addr, "C12:pingreq-to-target", "PingReq about {target} sent to the target itself ({to})");
            ensure!(rec.before.is_active(to), "C12:pingreq-to-inactive", "PingReq sent to {to} which is not an active member");
            ensure!(!seen.contains(to), "C12:pingreq-duplicate-helper", "two PingReq of one round sent to {to}");
            seen.push(*to);
        }
        Ok(())
    }
    fn finish(&mut self, out: &mut CaseOut) {
        out.sub_evaluations += self.requests;
        out.class_n("pingreq_checked", self.requests);
        out.class_n("indirect_timers_delivered_late_or_twice", self.stale_indirect_timers);
        out.nontrivial.append(&mut self.nontrivial);
    }
}

fn part_any_order() -> HistPart<ReqMon, impl Fn(&Setup) -> ReqMon + Sync> {
    let mut p = Profile::default();
    p.in_order_only = false;
    p.any_order = true;
    p.old_timers = true;
    p.n_addr = 6;
    p.max_len = 140;
    p.timers_weight = 55;
    p.set_config = false;
    let mut sp = SetupProfile::default();
    sp.periodic = false;
    sp.handler = false;
    sp.codecs = vec![CodecKind::Fix, CodecKind::Var];
    HistPart {
        name: "indirect-requests-with-timers-in-any-order",
        sp,
        p,
        cases_quick: 75_000,
        cases_thorough: 1_500_000,
        mk: |s: &Setup| ReqMon { codec: s.codec, requests: 0, stale_indirect_timers: 0, nontrivial: Vec::new() },
    }
}

// ---------------------------------------------------------------------------------------
// A real chain: origin, helper, target (and a bystander) exchanging the relay end to end
// ---------------------------------------------------------------------------------------

#[derive(Clone, Debug, Serialize, Deserialize)]
pub struct Chain {
    pub codec: CodecKind,
    /// probe rounds completed before the observed one (varies the probe number)
    pub warmup: u8,
    /// which hop is lost: 0 none, 1 PingReq, 2 IndirectPing, 3 IndirectAck, 4 ForwardedAck
    pub lose: u8,
    pub rng_seed: u64,
    pub helpers: u8,
}

fn fire_kind(i: &mut Inst, pool: &mut Vec<Timer<Id>>, kind: &str) -> Option<CallRec> {
    let k = pool.iter().position(|t| crate::rt::timer_kind(t) == kind)?;
    let t = pool.remove(k);
    let rec = i.call(Call::Timer(t));
    for (t, _) in timers(&rec.evs) {
        pool.push(t.clone());
    }
    Some(rec)
}

pub fn exec_chain(c: &Chain, out: &mut CaseOut) -> Result<(), Fail> {
    let cfg = CfgSpec { num_indirect: c.helpers.max(1), max_tx: 2, ..CfgSpec::default() };
    let ids: Vec<Id> = (0..4).map(|a| Id::new(a, 0)).collect();
    let mut insts: Vec<Inst> = ids.iter().enumerate().map(|(k, id)| Inst::new(*id, cfg.clone(), c.codec, c.rng_seed + k as u64, HandlerSpec::OFF)).collect();
    // full mesh knowledge
    let all: Vec<foca::Member<Id>> = ids.iter().map(|i| foca::Member::new(*i, 0, State::Alive)).collect();
    let mut pools: Vec<Vec<Timer<Id>>> = vec![Vec::new(); 4];
    for (k, i) in insts.iter_mut().enumerate() {
        let rec = i.call(Call::ApplyMany(all.iter().filter(|m| m.id().addr != k as u16).cloned().collect(), false));
        for (t, _) in timers(&rec.evs) {
            pools[k].push(t.clone());
        }
    }
    let codec = c.codec;
    let deliver = |insts: &mut Vec<Inst>, pools: &mut Vec<Vec<Timer<Id>>>, to: &Id, bytes: &[u8]| -> CallRec {
        let k = to.addr as usize;
        let rec = insts[k].call(Call::Data(bytes.to_vec()));
        for (t, _) in timers(&rec.evs) {
            pools[k].push(t.clone());
        }
        rec
    };
    // origin = instance 0. Warm-up rounds: every Ping answered.
    let mut log = Vec::new();
    for round in 0..=c.warmup {
        let observed = round == c.warmup;
        let (o_inst, o_pool) = (&mut insts[0], &mut pools[0]);
        let rec = fire_kind(o_inst, o_pool, "ProbeRandomMember").ok_or_else(|| Fail::new("C12:chain-setup", "no probe timer"))?;
        log.push(rec.render(codec));
        ensure!(rec.res.is_ok(), "C12:chain-probe-error", "probe timer returned {:?}", rec.res);
        let ping = rec.evs.iter().find_map(|e| if let Ev::Send { to, bytes } = e { Some((*to, bytes.clone())) } else { None });
        let Some((target, ping_bytes)) = ping else { return Err(Fail::new("C12:chain-setup", "no ping sent")) };
        let p = match wire::parse(&ping_bytes, codec).map(|d| d.header.message) {
            Ok(Message::Ping(n)) => n,
            other => return Err(Fail::new("C12:chain-setup", format!("expected a Ping, got {:?}", other))),
        };
        if !observed {
            // answered directly
            let r = deliver(&mut insts, &mut pools, &target, &ping_bytes);
            for e in &r.evs {
                if let Ev::Send { to, bytes } = e {
                    deliver(&mut insts, &mut pools, to, bytes);
                }
            }
            fire_kind(&mut insts[0], &mut pools[0], "SendIndirectProbe");
            continue;
        }
        // observed round: the Ping is lost; the indirect cycle must carry (origin, target, p) end to end
        let rec = fire_kind(&mut insts[0], &mut pools[0], "SendIndirectProbe").ok_or_else(|| Fail::new("C12:chain-setup", "no indirect timer"))?;
        log.push(rec.render(codec));
        let reqs: Vec<(Id, Vec<u8>)> = rec.evs.iter().filter_map(|e| if let Ev::Send { to, bytes } = e { Some((*to, bytes.clone())) } else { None }).collect();
        ensure!(!reqs.is_empty() && reqs.len() <= cfg.num_indirect as usize, "C12:chain-pingreq-count", "{} PingReq sent with {} possible helpers and fan-out {}", reqs.len(), 2, cfg.num_indirect);
        let mut completed = 0;
        for (hk, (helper, req)) in reqs.iter().enumerate() {
            ensure!(*helper != target && helper.addr != 0, "C12:pingreq-to-target", "PingReq sent to {helper} (target {target})");
            let d = wire::parse(req, codec).map_err(|e| Fail::new("C12:unparseable-send", e))?;
            ensure!(d.header.message == Message::PingReq { target, probe_number: p }, "C12:pingreq-wrong-fields", "PingReq carries {:?}, expected target {target} no {p}", d.header.message);
            let lose = if hk == 0 { c.lose } else { 0 };
            if lose == 1 {
                continue;
            }
            let r1 = deliver(&mut insts, &mut pools, helper, req);
            log.push(r1.render(codec));
            let ip: Vec<(Id, Vec<u8>)> = r1.evs.iter().filter_map(|e| if let Ev::Send { to, bytes } = e { Some((*to, bytes.clone())) } else { None }).collect();
            ensure!(ip.len() == 1 && ip[0].0 == target, "C12:pingreq-relay", "helper {helper} must relay to the target {target}; sent {:?}", ip.iter().map(|x| x.0).collect::<Vec<_>>());
            let d1 = wire::parse(&ip[0].1, codec).map_err(|e| Fail::new("C12:unparseable-send", e))?;
            ensure!(d1.header.message == Message::IndirectPing { origin: ids[0], probe_number: p }, "C12:pingreq-relay", "relay changed the fields: {:?}", d1.header.message);
            if lose == 2 {
                continue;
            }
            let r2 = deliver(&mut insts, &mut pools, &target, &ip[0].1);
            log.push(r2.render(codec));
            let ia: Vec<(Id, Vec<u8>)> = r2.evs.iter().filter_map(|e| if let Ev::Send { to, bytes } = e { Some((*to, bytes.clone())) } else { None }).collect();
            ensure!(ia.len() == 1 && ia[0].0 == *helper, "C12:indirectping-reply", "target must answer the helper; sent {:?}", ia.iter().map(|x| x.0).collect::<Vec<_>>());
            let d2 = wire::parse(&ia[0].1, codec).map_err(|e| Fail::new("C12:unparseable-send", e))?;
            ensure!(d2.header.message == Message::IndirectAck { target: ids[0], probe_number: p }, "C12:indirectping-reply", "reply changed the fields: {:?}", d2.header.message);
            if lose == 3 {
                continue;
            }
            let r3 = deliver(&mut insts, &mut pools, helper, &ia[0].1);
            log.push(r3.render(codec));
            let fa: Vec<(Id, Vec<u8>)> = r3.evs.iter().filter_map(|e| if let Ev::Send { to, bytes } = e { Some((*to, bytes.clone())) } else { None }).collect();
            ensure!(fa.len() == 1 && fa[0].0 == ids[0], "C12:indirectack-relay", "helper must forward to the origin; sent {:?}", fa.iter().map(|x| x.0).collect::<Vec<_>>());
            let d3 = wire::parse(&fa[0].1, codec).map_err(|e| Fail::new("C12:unparseable-send", e))?;
            ensure!(d3.header.message == Message::ForwardedAck { origin: target, probe_number: p }, "C12:indirectack-relay", "forward changed the fields: {:?}", d3.header.message);
            if lose == 4 {
                continue;
            }
            let r4 = deliver(&mut insts, &mut pools, &ids[0], &fa[0].1);
            log.push(r4.render(codec));
            ensure!(r4.res.is_ok(), "C12:forwardedack-rejected", "origin rejected the ForwardedAck: {:?}", r4.res);
            completed += 1;
        }
        let end = fire_kind(&mut insts[0], &mut pools[0], "ProbeRandomMember").ok_or_else(|| Fail::new("C12:chain-setup", "no probe timer"))?;
        log.push(end.render(codec));
        let suspected = matches!(end.after.record_of(&target), Some(m) if m.state() == State::Suspect);
        ensure!(
            suspected == (completed == 0),
            "C12:chain-outcome",
            "{} of {} indirect probes completed end to end, yet the target is {}suspected afterwards\n  {}",
            completed,
            reqs.len(),
            if suspected { "" } else { "not " },
            log.join("\n  ")
        );
        out.nontrivial((c.codec, p, c.lose, reqs.len(), completed));
        out.class(if completed > 0 { "chain_completed" } else { "chain_broken" });
    }
    if out.want_sample {
        out.sample = Some(json!({"chain": c, "calls": log}));
    }
    Ok(())
}

fn chains() -> Vec<Chain> {
    let mut v = Vec::new();
    for codec in [CodecKind::Fix, CodecKind::Var, CodecKind::Postcard, CodecKind::Bincode] {
        for warmup in [0u8, 1, 2, 5] {
            for lose in 0..5u8 {
                for rng_seed in 0..6u64 {
                    for helpers in 1..=2u8 {
                        v.push(Chain { codec, warmup, lose, rng_seed, helpers });
                    }
                }
            }
        }
    }
    v
}

pub fn run(ctx: &Ctx, report: &mut Report) -> EvidenceMeta {
    let cs = chains();
    ctx.run_enum("relay-chain", cs.len() as u64, |i| cs[i as usize].clone(), exec_chain, report, false);
    ctx.run_part(&RoundsPart, report);
    ctx.run_part(&LongPart, report);
    ctx.run_part(&part_any_order(), report);
    EvidenceMeta {
        level: "exploration",
        rule: "(1) proptest histories of one instance with 1..6 members in which the probe timers are delivered in deadline order and the inputs around them are generated: Ack / ForwardedAck from the target, an asked helper, an unasked member, an unknown identity or a newer generation of the target, with probe number current / previous / next / random, duplicates, arriving before the indirect stage, between the two timers or after the round; membership changes about the target (Suspect, higher incarnation, Down, rename) and events that abort the round (idle, Down about self, change_identity); plus Ping / PingReq / IndirectPing / IndirectAck / ForwardedAck datagrams with generated fields (incl. naming the instance itself) in every connection state. A round ledger built only from observations (Ping destination and number, PingReq destinations, accepted datagrams by the structural classifier) decides whether genuine evidence existed; at the next round: evidence => no suspicion, no evidence and target still active at the same incarnation => Suspect + exactly one timeout, scheduled after suspect_to_down_after; PingReq only without a direct ack, to <= num_indirect distinct active members other than the target with the right fields; every reply/relay preserves (origin, target, number); the instance's private probe state (hook) must agree with the ledger. (2) 260..330 consecutive acknowledged rounds (direct Ack or ForwardedAck from the asked helper) so that the 8-bit probe number wraps around; (2b) random histories in which issued timers fire in any order, late and more than once: every PingReq is sent by the indirect-probe timer, names the member pinged last with that Ping's number, goes to <= num_indirect distinct active members and never to the target; (3) a real 4-instance chain (origin, helpers, target) run end to end for 4 codecs x probe numbers x each hop lost. Non-trivial: a round with a near-miss input (right sender wrong number, right number wrong sender, duplicate, unasked helper) or an abort; chain runs always."
            .into(),
        assumptions: vec![
            "parts (1) and (2) deliver probe timers in deadline order; part (2b) delivers them in any order and judges only the indirect requests".into(),
            "a datagram counts as received when the structural classifier accepts it and its sender is active right after its header is applied".into(),
        ],
    }
}

pub fn replay(part_name: &str, case: &Value) -> Option<Result<(), Fail>> {
    match part_name {
        "probe-rounds" => Some(replay_with(&RoundsPart, case)),
        "acked-rounds-across-probe-number-wrap" => Some(replay_with(&LongPart, case)),
        "indirect-requests-with-timers-in-any-order" => Some(replay_with(&part_any_order(), case)),
        "relay-chain" => Some((|| {
            let c: Chain = serde_json::from_value(case.clone()).map_err(|e| Fail::new("replay:bad-file", e.to_string()))?;
            exec_chain(&c, &mut CaseOut::default())
        })()),
        _ => None,
    }
}
