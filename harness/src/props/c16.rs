//! C16 — Custom broadcasts: delivered intact, only where allowed, invalidated promptly.
use crate::codec::CodecKind;
use crate::engine::*;
use crate::ensure;
use crate::handler::{Handler, HandlerSpec, Key};
use crate::hist::*;
use crate::ident::*;
use crate::inst::*;
use crate::ops::*;
use crate::rt::Ev;
use crate::wire::{self, kind_name, may_carry_items};
use foca::verif::Event as HookEv;
use foca::{Invalidates, Message, State};
use proptest::prelude::*;
use serde_json::Value;

#[derive(Clone, Debug)]
struct Entry {
    bytes: Vec<u8>,
    key: Key,
    remaining: usize,
    max: usize,
}

pub struct Mon {
    codec: CodecKind,
    spec: HandlerSpec,
    acct: Vec<Entry>,
    /// items invalidated by a later accepted key: must never be transmitted again
    dead: Vec<Vec<u8>>,
    max_tx: usize,
    max_packet: usize,
    num_indirect: usize,
    datagrams: u64,
    with_items: u64,
    invalidated_midway: u64,
    both_truncated: u64,
    broadcast_stopped_early: u64,
    broadcast_calls: u64,
    receiver_checks: u64,
    nontrivial: Vec<u64>,
}

impl Mon {
    pub fn new(s: &Setup) -> Self {
        Mon {
            codec: s.codec,
            spec: s.handler,
            acct: Vec::new(),
            dead: Vec::new(),
            max_tx: s.cfg.max_tx as usize,
            max_packet: s.cfg.max_packet as usize,
            num_indirect: s.cfg.num_indirect as usize,
            datagrams: 0,
            with_items: 0,
            invalidated_midway: 0,
            both_truncated: 0,
            broadcast_stopped_early: 0,
            broadcast_calls: 0,
            receiver_checks: 0,
            nontrivial: Vec::new(),
        }
    }
}

impl Monitor for Mon {
    fn on_call(&mut self, rec: &CallRec, _o: &Origin, runner: &Runner) -> Result<(), Fail> {
        let sends: Vec<(&Id, &Vec<u8>)> = rec.evs.iter().filter_map(|e| if let Ev::Send { to, bytes } = e { Some((to, bytes)) } else { None }).collect();
        // The handler's own log says which items it accepted, in order; the hook's CustomQueued events
        // must be exactly those (Foca queues what the handler accepted, nothing else).
        // items on the wire are non-empty by construction of the format: whatever reaches the handler
        // (from add_broadcast or from a datagram, well-formed or not) is never an empty slice
        ensure!(
            rec.handler_calls.iter().all(|c| !c.data.is_empty()),
            "C16:handler-given-empty-item",
            "the handler was handed an empty item during {}",
            rec.call.kind()
        );
        let accepted: Vec<&Vec<u8>> = rec.handler_calls.iter().filter(|c| c.outcome == Some(true)).map(|c| &c.data).collect();
        let queued: Vec<&Vec<u8>> = rec.hook.iter().filter_map(|e| if let HookEv::CustomQueued(b) = e { Some(b) } else { None }).collect();
        ensure!(
            accepted == queued,
            "C16:queued-differs-from-accepted",
            "items queued for dissemination {:?} differ from the items the handler accepted {:?}",
            queued.iter().map(|b| wire::hex(b)).collect::<Vec<_>>(),
            accepted.iter().map(|b| wire::hex(b)).collect::<Vec<_>>()
        );
        let mut k = 0usize;
        let mut sent_kinds: Vec<Message<Id>> = Vec::new();
        let mut emptied_at: Option<usize> = None;
        for ev in &rec.hook {
            match ev {
                HookEv::CustomQueued(b) => {
                    let key = Handler::key_of(b, self.spec.inval);
                    let mut kept = Vec::new();
                    for e in self.acct.drain(..) {
                        if key.invalidates(&e.key) {
                            if e.remaining < e.max {
                                self.invalidated_midway += 1;
                                self.nontrivial.push(hash_of(&("invalidated", e.remaining.min(6), e.max.min(12), self.spec.inval)));
                            }
                            if e.bytes != *b {
                                self.dead.push(e.bytes);
                            }
                        } else {
                            kept.push(e);
                        }
                    }
                    self.acct = kept;
                    self.dead.retain(|d| d != b);
                    self.acct.push(Entry { bytes: b.clone(), key, remaining: self.max_tx, max: self.max_tx });
                }
                HookEv::UpdateQueued(_) => {}
                HookEv::Sent => {
                    let (to, bytes) = sends[k];
                    k += 1;
                    self.datagrams += 1;
                    let d = wire::parse(bytes, self.codec).map_err(|e| Fail::new("C16:unparseable-send", format!("emitted datagram does not parse: {e}")))?;
                    let kind = kind_name(&d.header.message);
                    sent_kinds.push(d.header.message.clone());
                    let allowed = may_carry_items(&d.header.message) && Handler::allows(&self.spec, to);
                    if !d.items.is_empty() {
                        self.with_items += 1;
                        ensure!(may_carry_items(&d.header.message), "C16:items-on-forbidden-kind", "{kind} carries custom broadcast items");
                        ensure!(
                            Handler::allows(&self.spec, to),
                            "C16:items-to-excluded-member",
                            "{kind} to {to} carries custom broadcast items although should_add_broadcast_data({to}) is false"
                        );
                    }
                    let before = self.acct.clone();
                    let mut used: Vec<usize> = Vec::new();
                    for it in &d.items {
                        ensure!(!self.dead.contains(it) || before.iter().any(|e| e.bytes == *it), "C16:invalidated-item-transmitted", "{kind} to {to} carries item {} which was invalidated by a later accepted key", wire::hex(it));
                        // identical pending entries: the one with most transmissions left is served first
                        let hit = before
                            .iter()
                            .enumerate()
                            .filter(|(i, e)| e.bytes == *it && !used.contains(i))
                            .max_by_key(|(_, e)| e.remaining)
                            .map(|(i, _)| i);
                        let Some(i) = hit else {
                            return Err(Fail::new(
                                "C16:transmitted-item-not-pending",
                                format!(
                                    "{kind} to {to} carries item {} which is not a (whole, byte-identical) pending backlog entry (fully transmitted, invalidated, never accepted or repeated); backlog {:?}",
                                    wire::hex(it),
                                    before.iter().map(|e| (wire::hex(&e.bytes), e.remaining)).collect::<Vec<_>>()
                                ),
                            ));
                        };
                        used.push(i);
                    }
                    // apply decrements
                    let mut next = Vec::new();
                    for (i, e) in before.iter().enumerate() {
                        let mut e = e.clone();
                        if used.contains(&i) {
                            e.remaining -= 1;
                        }
                        if e.remaining > 0 {
                            next.push(e);
                        }
                    }
                    self.acct = next;
                    if self.acct.is_empty() && !before.is_empty() && emptied_at.is_none() {
                        emptied_at = Some(k - 1);
                    }
                    // omission rule
                    if allowed && self.max_packet > d.members_end {
                        let free_end = self.max_packet - d.len;
                        let mut omitted = 0;
                        for (i, e) in before.iter().enumerate() {
                            if used.contains(&i) {
                                continue;
                            }
                            omitted += 1;
                            let later: usize = used.iter().filter(|u| before[**u].remaining < e.remaining).map(|u| before[*u].bytes.len() + 2).sum();
                            ensure!(
                                e.bytes.len() + 2 > free_end + later,
                                "C16:omitted-item-would-fit",
                                "{kind} to {to} omits pending item of {} bytes ({} transmissions left) although {} bytes were free at the end and {} bytes went to items with fewer transmissions left",
                                e.bytes.len(),
                                e.remaining,
                                free_end,
                                later
                            );
                        }
                        // a datagram whose update section and tail were both cut short
                        let upd_pending = rec.before.snap.updates.len();
                        let upd_sent = d.members.as_ref().map(|m| m.len()).unwrap_or(0);
                        if omitted > 0 && wire::piggybacks(&d.header.message) && d.header.message != Message::Feed && upd_sent < upd_pending {
                            self.both_truncated += 1;
                            self.nontrivial.push(hash_of(&("both-truncated", kind, upd_sent.min(6), d.items.len().min(6))));
                        }
                    }
                    // receiver side: a peer with the same handler sees exactly these items, in order, with the sender's identity
                    if !d.items.is_empty() {
                        self.receiver_checks += 1;
                        let mut peer = Inst::new(*to, CfgSpec { max_packet: self.max_packet.max(d.len) as u32, ..CfgSpec::default() }, self.codec, 17, self.spec);
                        let (res, _, _, hcalls) = peer.raw_call(&Call::Data(bytes.to_vec()));
                        ensure!(!res.is_panic(), "panic", "peer panicked: {:?}", res);
                        if to.addr != d.header.src.addr {
                            let got: Vec<(&Vec<u8>, Option<Id>)> = hcalls.iter().map(|c| (&c.data, c.sender)).collect();
                            let want: Vec<(&Vec<u8>, Option<Id>)> = d.items.iter().map(|i| (i, Some(d.header.src))).collect();
                            ensure!(
                                got == want,
                                "C16:receiver-sees-different-items",
                                "the receiving handler saw {:?} but the datagram carries {:?} from {}",
                                got.iter().map(|(b, s)| (wire::hex(b), *s)).collect::<Vec<_>>(),
                                d.items.iter().map(|b| wire::hex(b)).collect::<Vec<_>>(),
                                d.header.src
                            );
                        }
                    }
                }
            }
        }
        // broadcast(): only Broadcast datagrams, bounded fan-out, eligible active members, stops when drained
        if matches!(rec.call, Call::Broadcast) && rec.res.is_ok() {
            self.broadcast_calls += 1;
            let backlog_before = rec.before.custom_backlog;
            if backlog_before == 0 {
                ensure!(sends.is_empty(), "C16:broadcast-with-empty-backlog", "broadcast() with an empty backlog sent {} datagrams", sends.len());
            }
            ensure!(
                sends.len() <= self.num_indirect,
                "C16:broadcast-fanout",
                "broadcast() sent {} datagrams, more than num_indirect_probes={}",
                sends.len(),
                self.num_indirect
            );
            let mut dsts = std::collections::BTreeSet::new();
            for (i, (to, _)) in sends.iter().enumerate() {
                ensure!(sent_kinds[i] == Message::Broadcast, "C16:broadcast-sends-other-kind", "broadcast() sent a {:?}", sent_kinds[i]);
                ensure!(dsts.insert(**to), "C16:broadcast-duplicate-destination", "broadcast() sent twice to {to}");
                ensure!(
                    matches!(rec.before.record_of(to), Some(m) if m.state() != State::Down),
                    "C16:broadcast-to-inactive",
                    "broadcast() sent to {to} which is not an active member"
                );
                ensure!(Handler::allows(&self.spec, to), "C16:broadcast-to-excluded-member", "broadcast() sent to {to} although should_add_broadcast_data is false for it");
            }
            if let Some(e) = emptied_at {
                ensure!(e + 1 == sends.len(), "C16:broadcast-after-drained", "broadcast() kept sending after datagram #{e} emptied the backlog ({} sent)", sends.len());
                let eligible = rec.before.active.iter().filter(|a| Handler::allows(&self.spec, a)).count();
                if sends.len() < self.num_indirect.min(eligible) {
                    self.broadcast_stopped_early += 1;
                    self.nontrivial.push(hash_of(&("stopped-early", sends.len(), self.num_indirect)));
                }
            }
        }
        self.max_tx = runner.inst.cfg.max_tx as usize;
        self.max_packet = runner.inst.cfg.max_packet as usize;
        self.num_indirect = runner.inst.cfg.num_indirect as usize;
        // backlog equality
        ensure!(
            rec.after.custom_backlog == self.acct.len(),
            "C16:backlog-size",
            "custom_broadcast_backlog()={} but the accountant holds {}: {:?}",
            rec.after.custom_backlog,
            self.acct.len(),
            self.acct.iter().map(|e| (wire::hex(&e.bytes), e.remaining)).collect::<Vec<_>>()
        );
        let mut real = rec.after.snap.custom_broadcasts.clone();
        let mut mine: Vec<(Vec<u8>, usize)> = self.acct.iter().map(|e| (e.bytes.clone(), e.remaining)).collect();
        real.sort();
        mine.sort();
        ensure!(real == mine, "C16:backlog-contents", "custom broadcast backlog differs from the accountant:\n real {:?}\n acct {:?}", real, mine);
        Ok(())
    }

    fn finish(&mut self, out: &mut CaseOut) {
        out.sub_evaluations += self.datagrams;
        out.class_n("datagrams_accounted", self.datagrams);
        out.class_n("datagrams_with_items", self.with_items);
        out.class_n("items_invalidated_while_partly_transmitted", self.invalidated_midway);
        out.class_n("datagrams_with_both_sections_truncated", self.both_truncated);
        out.class_n("broadcast_calls", self.broadcast_calls);
        out.class_n("broadcast_stopped_early", self.broadcast_stopped_early);
        out.class_n("receiver_side_checks", self.receiver_checks);
        out.nontrivial.append(&mut self.nontrivial);
    }
}

fn part() -> HistPart<Mon, impl Fn(&Setup) -> Mon + Sync> {
    let mut p = Profile::default();
    p.n_addr = 7;
    p.api_sends = 14;
    p.timers_weight = 25;
    p.max_len = 110;
    p.raw_data = true; // add_broadcast with arbitrary bytes (empty, oversized, bad key)
    p.empty_items = 2; // inbound datagrams ending in a zero-length item: never an item for the handler
    let mut sp = SetupProfile::default();
    sp.codecs = vec![CodecKind::Fix, CodecKind::Var];
    sp.packet = vec![(20, 60), (60, 140), (1400, 1401)];
    sp.max_tx = (1, 8);
    HistPart { name: "histories", sp, p, cases_quick: 120_000, cases_thorough: 2_000_000, mk: |s: &Setup| Mon::new(s) }
}

/// the same generator, but every case has broadcasts enabled with a generated handler
pub struct EnabledPart;
impl Part for EnabledPart {
    type Case = Case;
    fn name(&self) -> &'static str {
        "histories-handler-enabled"
    }
    fn strategy(&self, _t: Tier) -> BoxedStrategy<Case> {
        let p0 = part();
        (case(&p0.sp, &p0.p), handler_spec())
            .prop_map(|(mut c, h)| {
                c.setup.handler = h;
                c
            })
            .boxed()
    }
    fn cases(&self, tier: Tier) -> u64 {
        tier.pick(120_000, 2_000_000)
    }
    fn exec(&self, c: &Case, out: &mut CaseOut) -> Result<(), Fail> {
        let mut m = Mon::new(&c.setup);
        run_history(c, &mut m, out)
    }
}

pub fn run(ctx: &Ctx, report: &mut Report) -> EvidenceMeta {
    ctx.run_part(&EnabledPart, report);
    ctx.run_part(&part(), report);
    EvidenceMeta {
        level: "exploration",
        rule: "proptest random single-instance histories with the harness's own BroadcastHandler (items key|version|payload; invalidation relation in {same key & higher version, same key, never, everything}; acceptance in {new version only, always, never}; recipient predicate = generated address subset; items with key 0xFF are handler errors): add_broadcast (valid, empty, oversized, arbitrary bytes), received datagrams carrying items (some ending in a zero-length item, with handlers that would accept an empty slice), emissions of every kind at packet sizes 20..140 and 1400, broadcast() with 0..6 eligible members. Oracle: an accountant keyed by the handler's own logged decisions (cross-checked against the hook's queue log): every item in a datagram tail is a whole, byte-identical pending entry (identical entries: most transmissions left first), costs one transmission, disappears at 0; none on Announce/TurnUndead; none to members the predicate excludes; an item invalidated by a later accepted key never appears again; an omitted item did not fit (len+2 > free bytes at the end + bytes of included items with fewer transmissions left); custom_broadcast_backlog() and the real (bytes, remaining) multiset equal the accountant's; every datagram with items is also delivered to a peer with the same handler, which must see exactly those items, in order, once each, with sender = header.src; broadcast() sends only Broadcast datagrams, to <= num_indirect_probes distinct active eligible members, nothing with an empty backlog and nothing after the datagram that drained it. Non-trivial: an item invalidated while partly transmitted, a datagram whose update section and tail were both cut short, or broadcast() stopping early."
            .into(),
        assumptions: vec!["the handler under test is the harness's own (total, logs every call)".into()],
    }
}

pub fn replay(part_name: &str, case: &Value) -> Option<Result<(), Fail>> {
    match part_name {
        "histories" => Some(replay_with(&part(), case)),
        "histories-handler-enabled" => Some(replay_with(&EnabledPart, case)),
        _ => None,
    }
}
