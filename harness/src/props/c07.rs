//! C07 — Every emitted datagram is well-formed, bounded and accepted by its peer.
use crate::codec::{CodecKind, ALL_CODECS};
use crate::engine::*;
use crate::ensure;
use crate::handler::{Accept, HandlerSpec, Inval};
use crate::hist::*;
use crate::ident::*;
use crate::inst::*;
use crate::ops::*;
use crate::wire::{self, kind_name, may_carry_items, piggybacks};
use foca::{Header, Member, Message, State, Timer};
use proptest::prelude::*;
use serde::{Deserialize, Serialize};
use serde_json::{json, Value};

const PEER_HANDLER: HandlerSpec = HandlerSpec { enabled: true, inval: Inval::Never, accept: Accept::Always, recipients: u32::MAX, accept_empty: false };

#[derive(Default)]
pub struct WireStats {
    pub datagrams: u64,
    pub truncated: u64,
    pub by_kind: std::collections::BTreeMap<&'static str, u64>,
    pub no_count_tight: u64,
    pub with_members: u64,
    pub with_items: u64,
    pub nontrivial: Vec<u64>,
}

/// Judges every datagram emitted in one call. `max_packet` is the limit in force when the call started.
pub fn check_call(rec: &CallRec, max_packet: usize, codec: CodecKind, stats: &mut WireStats) -> Result<(), Fail> {
    let sent = sent_dgrams(rec, codec, "C07")?;
    if sent.is_empty() {
        return Ok(());
    }
    let chain = identity_chain(rec);
    let limit = match (&rec.call, rec.res.is_ok()) {
        (Call::SetConfig(c), true) => c.max_packet as usize,
        _ => max_packet,
    };
    // what was pending when the call started (hook snapshot): used for the non-triviality rule only
    let pending_updates: usize = rec.before.snap.updates.iter().map(|(b, _)| b.len()).sum();
    let pending_items: usize = rec.before.snap.custom_broadcasts.iter().map(|(b, _)| b.len() + 2).sum();
    for s in &sent {
        let d = &s.dgram;
        let h = &d.header;
        let kind = kind_name(&h.message);
        stats.datagrams += 1;
        *stats.by_kind.entry(kind).or_insert(0) += 1;
        ensure!(
            s.bytes.len() <= limit,
            "C07:exceeds-max-packet-size",
            "{kind} datagram of {} bytes exceeds max_packet_size {limit}",
            s.bytes.len()
        );
        ensure!(h.dst == *s.to, "C07:dst-mismatch", "{kind} handed over for {} but its header says dst={}", s.to, h.dst);
        if chain.len() == 1 && !matches!(rec.call, Call::ReuseDown) {
            let (lo, hi) = (rec.before.snap.incarnation, rec.after.snap.incarnation);
            ensure!(
                h.src_incarnation >= lo.min(hi) && h.src_incarnation <= lo.max(hi),
                "C07:src-incarnation",
                "{kind} carries src_incarnation {} but the sender's incarnation during the call is {lo}..{hi}",
                h.src_incarnation
            );
        }
        // section layout
        match h.message {
            Message::Announce | Message::TurnUndead => {
                // the parser already rejects anything after the header
                ensure!(d.members.is_none() && d.items.is_empty(), "C07:lightweight-kind-carries-data", "{kind} carries data after its header");
            }
            Message::Broadcast => {
                ensure!(d.members.is_none(), "C07:broadcast-with-members", "Broadcast carries a member section");
            }
            _ => {
                if d.members.is_none() {
                    // allowed only when the header leaves at most 2 free bytes
                    let free = limit.saturating_sub(d.header_len);
                    ensure!(
                        free <= 2,
                        "C07:missing-member-section",
                        "{kind} has no member count although {free} bytes were free after its {}-byte header",
                        d.header_len
                    );
                    stats.no_count_tight += 1;
                }
            }
        }
        if d.members.as_ref().map(|m| !m.is_empty()).unwrap_or(false) {
            stats.with_members += 1;
        }
        if !d.items.is_empty() {
            stats.with_items += 1;
            ensure!(may_carry_items(&h.message), "C07:items-on-lightweight-kind", "{kind} carries custom broadcast items");
        }
        for it in &d.items {
            ensure!(!it.is_empty(), "C07:empty-item", "{kind} carries an empty custom broadcast item");
        }
        // Feed: only active members, never the receiver nor the sender, no duplicates
        if h.message == Message::Feed {
            let ms = d.members.clone().unwrap_or_default();
            let mut seen = std::collections::BTreeSet::new();
            for m in &ms {
                ensure!(m.id() != s.to && *m.id() != s.identity, "C07:feed-lists-receiver-or-sender", "Feed to {} lists {}", s.to, m.id());
                ensure!(seen.insert(*m.id()), "C07:feed-duplicate", "Feed lists {} twice", m.id());
                ensure!(m.state() != State::Down, "C07:feed-lists-down", "Feed lists {} as Down", m.id());
                let known = rec.after.record_of(m.id());
                ensure!(
                    matches!(known, Some(k) if k.state() != State::Down && k == m),
                    "C07:feed-not-from-active-records",
                    "Feed lists {:?} but the sender's record is {:?}",
                    m,
                    known
                );
            }
        }
        // peer acceptance
        let mut peer = Inst::new(*s.to, CfgSpec { max_packet: limit as u32, ..CfgSpec::default() }, codec, 99, PEER_HANDLER);
        let (res, _, _, _) = peer.raw_call(&Call::Data(s.bytes.to_vec()));
        match &res {
            Res::Panic(m) => return Err(Fail::new("panic", format!("peer panicked on an emitted {kind}: {m}"))),
            Res::Err(k @ (ErrKind::Decode | ErrKind::MalformedPacket | ErrKind::DataTooBig), msg) => {
                return Err(Fail::new(
                    "C07:peer-rejects",
                    format!("a peer with identity {} rejects the emitted {kind} with {:?} ({msg}): {}", s.to, k, wire::hex(s.bytes)),
                ))
            }
            _ => {}
        }
        // non-triviality: something had to be left out
        let free = limit.saturating_sub(d.header_len + 2);
        let want = if piggybacks(&h.message) && h.message != Message::Feed { pending_updates } else { 0 } + if may_carry_items(&h.message) { pending_items } else { 0 };
        let feed_trunc = h.message == Message::Feed && d.members.as_ref().map(|m| m.len()).unwrap_or(0) + 1 < rec.after.num_members;
        if want > free || feed_trunc {
            stats.truncated += 1;
            stats.nontrivial.push(hash_of(&(
                kind,
                codec,
                d.members.as_ref().map(|m| m.len().min(20)),
                d.items.len().min(8),
                (limit - s.bytes.len()).min(16),
            )));
        }
    }
    Ok(())
}

pub struct Mon {
    codec: CodecKind,
    stats: WireStats,
    max_packet: usize,
}

impl Monitor for Mon {
    fn on_call(&mut self, rec: &CallRec, _o: &Origin, runner: &Runner) -> Result<(), Fail> {
        let r = check_call(rec, self.max_packet, self.codec, &mut self.stats);
        self.max_packet = runner.inst.cfg.max_packet as usize;
        r
    }
    fn finish(&mut self, out: &mut CaseOut) {
        flush(&mut self.stats, out);
    }
}

fn flush(stats: &mut WireStats, out: &mut CaseOut) {
    out.sub_evaluations += stats.datagrams;
    out.class_n("datagrams_checked", stats.datagrams);
    out.class_n("datagrams_where_something_was_left_out", stats.truncated);
    out.class_n("piggybacking_kind_without_count_(<=2_free_bytes)", stats.no_count_tight);
    out.class_n("datagrams_with_members", stats.with_members);
    out.class_n("datagrams_with_items", stats.with_items);
    for (k, v) in &stats.by_kind {
        out.class_n(
            match *k {
                "Ping" => "kind_Ping",
                "Ack" => "kind_Ack",
                "PingReq" => "kind_PingReq",
                "IndirectPing" => "kind_IndirectPing",
                "IndirectAck" => "kind_IndirectAck",
                "ForwardedAck" => "kind_ForwardedAck",
                "Announce" => "kind_Announce",
                "Feed" => "kind_Feed",
                "Gossip" => "kind_Gossip",
                "Broadcast" => "kind_Broadcast",
                _ => "kind_TurnUndead",
            },
            *v,
        );
    }
    out.nontrivial.append(&mut stats.nontrivial);
}

// ---------------------------------------------------------------------------------------
// random histories with preloaded state
// ---------------------------------------------------------------------------------------

#[derive(Clone, Debug, Serialize, Deserialize)]
pub struct LoadedCase {
    pub case: Case,
    pub preload_members: u16,
    pub preload_items: Vec<ItemSpec>,
}

pub struct LoadedPart;

fn loaded_ops(c: &LoadedCase) -> Vec<Op> {
    let mut ops = Vec::new();
    let mut batch = Vec::new();
    for k in 0..c.preload_members {
        let addr = 1 + (k % 250) as u8;
        let gen = (k / 250) as u8;
        batch.push(MemberSpec { id: IdSel::Abs(addr, gen), inc: IncSel::Abs(k % 3), state: if k % 7 == 3 { 2 } else if k % 5 == 1 { 1 } else { 0 } });
        if batch.len() == 50 {
            ops.push(Op::ApplyMany(std::mem::take(&mut batch), true));
        }
    }
    if !batch.is_empty() {
        ops.push(Op::ApplyMany(batch, true));
    }
    for it in &c.preload_items {
        ops.push(Op::AddBroadcast(it.clone()));
    }
    ops.extend(c.case.ops.iter().cloned());
    ops
}

impl Part for LoadedPart {
    type Case = LoadedCase;
    fn name(&self) -> &'static str {
        "loaded-histories"
    }
    fn strategy(&self, _t: Tier) -> BoxedStrategy<LoadedCase> {
        let mut p = Profile::default();
        p.n_addr = 6;
        p.old_timers = true;
        p.api_sends = 12;
        p.timers_weight = 40;
        p.max_len = 60;
        p.packet_resize = true;
        // inbound datagrams ending in a zero-length item (a third of the generated handlers would accept an
        // empty slice): nothing of the sort may ever be queued and re-emitted
        p.empty_items = 1;
        let mut sp = SetupProfile::default();
        sp.codecs = ALL_CODECS.to_vec();
        sp.packet = vec![(6, 130), (6, 130), (130, 1500), (1500, 65_536)];
        sp.max_tx = (1, 12);
        let items = proptest::collection::vec((0..12u8, 0..3u8, prop_oneof![4 => 0..8u16, 2 => 8..60u16, 1 => 60..400u16]).prop_map(|(key, version, pad)| ItemSpec { key, version, pad }), 0..13);
        (case(&sp, &p), prop_oneof![3 => 0..8u16, 2 => 8..60u16, 1 => 60..300u16], items)
            .prop_map(|(case, preload_members, preload_items)| LoadedCase { case, preload_members, preload_items })
            .boxed()
    }
    fn cases(&self, tier: Tier) -> u64 {
        tier.pick(60_000, 600_000)
    }
    fn exec(&self, c: &LoadedCase, out: &mut CaseOut) -> Result<(), Fail> {
        let full = Case { setup: c.case.setup.clone(), ops: loaded_ops(c) };
        let mut mon = Mon { codec: full.setup.codec, stats: WireStats::default(), max_packet: full.setup.cfg.max_packet as usize };
        run_history(&full, &mut mon, out)
    }
}

// ---------------------------------------------------------------------------------------
// byte-by-byte sweep of the packet size with a script that emits every message kind
// ---------------------------------------------------------------------------------------

#[derive(Clone, Debug, Serialize, Deserialize)]
pub struct SweepCase {
    pub codec: CodecKind,
    pub max_packet: u32,
    pub members: u16,
    pub updates: u16,
    pub item_sizes: Vec<u16>,
    pub max_tx: u8,
    /// true: addresses, generations and incarnations are spread over several varint widths, so that under
    /// the field-wise serde codecs members have different encoded sizes and fail to fit at different fields
    #[serde(default)]
    pub spread: bool,
}

fn sweep_cases(tier: Tier) -> Vec<SweepCase> {
    let mut v = Vec::new();
    let hi = tier.pick(120u32, 220u32);
    for codec in ALL_CODECS {
        for max_packet in 4..=hi {
            for (members, updates, item_sizes) in [
                (0u16, 0u16, vec![]),
                (1, 1, vec![1u16]),
                (3, 3, vec![1, 3, 10]),
                (5, 12, vec![2, 2, 7, 30]),
                (40, 40, vec![1, 1, 1, 5, 9, 20, 3, 2, 6, 11, 4, 8]),
            ] {
                v.push(SweepCase { codec, max_packet, members, updates, item_sizes: item_sizes.clone(), max_tx: 2, spread: false });
                if members >= 5 {
                    v.push(SweepCase { codec, max_packet, members, updates, item_sizes, max_tx: 2, spread: true });
                }
            }
        }
    }
    v
}

fn data(r: &Runner, src: Id, inc: u16, message: Message<Id>, members: Option<Vec<Member<Id>>>) -> Call {
    let h = Header { src, src_incarnation: inc, dst: r.own(), message };
    Call::Data(wire::build(r.inst.codec, &h, members.as_deref(), &[]))
}

pub fn exec_sweep(c: &SweepCase, out: &mut CaseOut) -> Result<(), Fail> {
    let setup = Setup {
        own_gen: 0,
        own_renew: RENEW_NEXT,
        cfg: CfgSpec { max_packet: c.max_packet, max_tx: c.max_tx, num_indirect: 2, notify_down: true, ..CfgSpec::default() },
        codec: c.codec,
        rng_seed: 5,
        handler: PEER_HANDLER,
    };
    let mut r = Runner::new(&setup);
    let mut stats = WireStats::default();
    let mp = c.max_packet as usize;
    let mut log: Vec<String> = Vec::new();
    let mut go = |r: &mut Runner, call: Call, origin: Origin, stats: &mut WireStats| -> Result<CallRec, Fail> {
        let rec = r.inst.call(call);
        r.absorb(&rec, &origin);
        log.push(rec.render(c.codec));
        if let Res::Panic(m) = &rec.res {
            return Err(Fail::new("panic", format!("Foca panicked: {m}")));
        }
        check_call(&rec, mp, c.codec, stats).map_err(|mut f| {
            f.message = format!("{}\n sweep case {:?}\n  {}", f.message, c, log.iter().rev().take(6).rev().cloned().collect::<Vec<_>>().join("\n  "));
            f
        })?;
        Ok(rec)
    };
    // load: members without broadcasting, then `updates` fresh updates, then items
    // member k: (address, generation, base incarnation); the first two stay (1,0) and (2,0): they talk to us below
    let shape = |k: u16| -> (u16, u16, u16) {
        if !c.spread || k < 2 {
            (1 + k, 0, 0)
        } else {
            (1 + k * [1u16, 37, 700][(k % 3) as usize], [0u16, 0, 200, 17000][(k % 4) as usize], [0u16, 130, 0, 16500, 3][(k % 5) as usize])
        }
    };
    let ms: Vec<Member<Id>> = (0..c.members).map(|k| shape(k)).map(|(a, g, i)| Member::new(Id::new(a, g), i, State::Alive)).collect();
    go(&mut r, Call::ApplyMany(ms, false), Origin::NotTimer, &mut stats)?;
    let us: Vec<Member<Id>> = (0..c.updates)
        .map(|k| {
            let (a, g, i) = shape(k % c.members.max(1));
            Member::new(Id::new(a, g), i + 1 + k / c.members.max(1), if k % 3 == 0 { State::Suspect } else { State::Alive })
        })
        .collect();
    go(&mut r, Call::ApplyMany(us, true), Origin::NotTimer, &mut stats)?;
    for (i, n) in c.item_sizes.iter().enumerate() {
        let mut b = vec![i as u8, 1];
        b.resize((*n as usize).max(1), 0x33);
        go(&mut r, Call::AddBroadcast(b), Origin::NotTimer, &mut stats)?;
    }
    let a = Id::new(1, 0);
    let b = Id::new(2, 0);
    // API sends
    go(&mut r, Call::Gossip, Origin::NotTimer, &mut stats)?;
    go(&mut r, Call::Announce(Id::new(200, 0)), Origin::NotTimer, &mut stats)?;
    go(&mut r, Call::Broadcast, Origin::NotTimer, &mut stats)?;
    // probe round: Ping, then PingReq
    for kind in ["ProbeRandomMember", "SendIndirectProbe", "ProbeRandomMember"] {
        if let Some(i) = r.pool.iter().position(|p| crate::rt::timer_kind(&p.timer) == kind) {
            let p = r.pool.remove(i);
            go(&mut r, Call::Timer(p.timer.clone()), Origin::Issued(p), &mut stats)?;
        }
    }
    // replies
    if c.members >= 2 {
        let call = data(&r, a, 0, Message::Ping(7), Some(vec![]));
        go(&mut r, call, Origin::NotTimer, &mut stats)?;
        let call = data(&r, a, 0, Message::PingReq { target: b, probe_number: 3 }, Some(vec![]));
        go(&mut r, call, Origin::NotTimer, &mut stats)?;
        let call = data(&r, a, 0, Message::IndirectPing { origin: b, probe_number: 3 }, Some(vec![]));
        go(&mut r, call, Origin::NotTimer, &mut stats)?;
        let call = data(&r, a, 0, Message::IndirectAck { target: b, probe_number: 3 }, Some(vec![]));
        go(&mut r, call, Origin::NotTimer, &mut stats)?;
        let call = data(&r, a, 0, Message::Announce, None);
        go(&mut r, call, Origin::NotTimer, &mut stats)?;
        // a member declared Down talks to us -> TurnUndead
        go(&mut r, Call::ApplyMany(vec![Member::new(b, 9, State::Down)], true), Origin::NotTimer, &mut stats)?;
        let call = data(&r, b, 9, Message::Gossip, Some(vec![]));
        go(&mut r, call, Origin::NotTimer, &mut stats)?;
        // suspicion about ourselves -> refutation gossip
        let own = r.own();
        let call = data(&r, a, 0, Message::Gossip, Some(vec![Member::new(own, 0, State::Suspect)]));
        go(&mut r, call, Origin::NotTimer, &mut stats)?;
        // periodic timers if any, then a renewal (Down about us) and finally leaving
        let call = data(&r, a, 0, Message::Gossip, Some(vec![Member::new(own, 0, State::Down)]));
        go(&mut r, call, Origin::NotTimer, &mut stats)?;
    }
    go(&mut r, Call::Leave, Origin::NotTimer, &mut stats)?;
    let _ = Timer::<Id>::ProbeRandomMember(0);
    flush(&mut stats, out);
    if out.want_sample {
        out.sample = Some(json!({"sweep": c, "calls": log.iter().take(30).collect::<Vec<_>>()}));
    }
    Ok(())
}

// ---------------------------------------------------------------------------------------
// every datagram of simulated clusters (joins, a crash, a leave, a partition and its healing)
// ---------------------------------------------------------------------------------------

#[derive(Clone, Debug, Serialize, Deserialize)]
pub struct TrafficCase {
    pub spec: crate::cluster::ClusterSpec,
    pub crash: u16,
    pub leave: u16,
    pub split: u16,
}

pub struct TrafficPart;

pub fn exec_traffic(c: &TrafficCase, out: &mut CaseOut) -> Result<(), Fail> {
    use crate::sim::*;
    let spec = &c.spec;
    let n = spec.n as usize;
    let period = spec.period_us();
    let limit = spec.cfg.max_packet as usize;
    let codec = spec.codec;
    let mut datagrams = 0u64;
    let mut kinds: std::collections::BTreeSet<&'static str> = Default::default();
    let mut tight = 0u64;
    let mut check = |sim: &Sim, info: &StepInfo| -> Result<(), Fail> {
        crate::cluster::panic_or_err(sim, info, "C07", true)?;
        // a delivered datagram emitted by a correct peer must never be a decode / framing / size error
        if let (Some(_), Some((k, msg))) = (&info.delivered_bytes, &info.err) {
            ensure!(
                !matches!(k, ErrKind::Decode | ErrKind::MalformedPacket | ErrKind::DataTooBig),
                "C07:peer-rejects",
                "node{} rejected a datagram emitted by its peer ({:?}) with {:?}: {}",
                info.node,
                info.delivered_kind,
                k,
                msg
            );
        }
        let id_after = sim.identity(info.node);
        for (to, bytes) in &info.sent_bytes {
            datagrams += 1;
            let d = wire::parse(bytes, codec).map_err(|e| Fail::new("C07:unparseable-send", format!("node{} emitted a datagram that does not follow the grammar: {e}: {}", info.node, wire::hex(bytes))))?;
            let kind = kind_name(&d.header.message);
            kinds.insert(kind);
            ensure!(bytes.len() <= limit, "C07:exceeds-max-packet-size", "{kind} of {} bytes exceeds max_packet_size {limit}", bytes.len());
            ensure!(d.header.dst == *to, "C07:dst-mismatch", "{kind} handed over for {to} says dst={}", d.header.dst);
            ensure!(
                d.header.src == info.identity_before || d.header.src == id_after,
                "C07:src-not-current-identity",
                "{kind} emitted by node{} has src {} but its identity is {} -> {}",
                info.node,
                d.header.src,
                info.identity_before,
                id_after
            );
            if piggybacks(&d.header.message) && d.members.is_none() {
                ensure!(limit.saturating_sub(d.header_len) <= 2, "C07:missing-member-section", "{kind} without member count although {} bytes were free", limit - d.header_len);
            }
            if d.header.message == Message::Feed {
                let mut seen = std::collections::BTreeSet::new();
                for m in d.members.iter().flatten() {
                    ensure!(m.id() != to && *m.id() != d.header.src, "C07:feed-lists-receiver-or-sender", "Feed to {to} lists {}", m.id());
                    ensure!(seen.insert(*m.id()), "C07:feed-duplicate", "Feed lists {} twice", m.id());
                    ensure!(m.state() != State::Down, "C07:feed-lists-down", "Feed lists {} as Down", m.id());
                }
            }
            if limit - bytes.len() < 8 {
                tight += 1;
            }
        }
        Ok(())
    };
    // formation with the recorder on
    crate::cluster::KEEP_SENT.with(|k| k.set(true));
    let formed = crate::cluster::form(spec, &mut check);
    crate::cluster::KEEP_SENT.with(|k| k.set(false));
    let (mut sim, _t) = formed?;
    let t0 = sim.now;
    sim.run_until(t0 + (n as u64 + 3) * period, &mut check)?;
    // a crash, then a leave, then a partition and its healing
    let crash = ((c.crash as usize) * n) >> 16;
    sim.crash(crash);
    sim.run_until(sim.now + (n as u64 + 6) * period, &mut check)?;
    let leave = ((c.leave as usize) * n) >> 16;
    if leave != crash {
        let info = sim.call(leave, Call::Leave);
        check(&sim, &info)?;
        sim.nodes[leave].left_at = Some(sim.now);
    }
    sim.run_until(sim.now + 4 * period, &mut check)?;
    let k = 1 + ((c.split as usize) * (n / 2).max(1) >> 16);
    sim.partition = Some((0..k).collect());
    sim.run_until(sim.now + (n as u64 + 8) * period, &mut check)?;
    sim.partition = None;
    sim.run_until(sim.now + (n as u64 + 8) * period, &mut check)?;
    out.sub_evaluations += datagrams;
    out.class_n("simulated_cluster_datagrams", datagrams);
    out.class_n("datagrams_within_8_bytes_of_the_limit", tight);
    if tight > 0 {
        out.nontrivial((n, codec, kinds.iter().collect::<Vec<_>>(), (limit / 16).min(12)));
    }
    Ok(())
}

impl Part for TrafficPart {
    type Case = TrafficCase;
    fn name(&self) -> &'static str {
        "simulated-cluster-traffic"
    }
    fn strategy(&self, _t: Tier) -> BoxedStrategy<TrafficCase> {
        let mut p = crate::cluster::ClusterProfile::default();
        p.n = (3, 9);
        p.max_tx = (1, 10);
        p.renew = vec![RENEW_NONE, RENEW_NEXT, RENEW_NEXT];
        p.announce_down = Some((2, 5));
        p.packet = vec![(40, 120), (40, 120), (120, 400), (1400, 1401)];
        p.codecs = ALL_CODECS.to_vec();
        (crate::cluster::cluster_spec(&p), any::<u16>(), any::<u16>(), any::<u16>()).prop_map(|(spec, crash, leave, split)| TrafficCase { spec, crash, leave, split }).boxed()
    }
    fn cases(&self, tier: Tier) -> u64 {
        tier.pick(6_000, 60_000)
    }
    fn exec(&self, c: &TrafficCase, out: &mut CaseOut) -> Result<(), Fail> {
        exec_traffic(c, out)
    }
    fn max_shrink_iters(&self) -> u32 {
        300
    }
}

pub fn run(ctx: &Ctx, report: &mut Report) -> EvidenceMeta {
    ctx.run_part(&TrafficPart, report);
    let cases = sweep_cases(ctx.tier);
    ctx.run_enum("packet-size-sweep", cases.len() as u64, |i| cases[i as usize].clone(), exec_sweep, report, false);
    report.extra.insert("packet_size_sweep".into(), json!({"scripts": cases.len(), "packet_sizes": format!("4..={} one byte at a time", ctx.tier.pick(120, 220)), "codecs": 4, "loads": 5}));
    ctx.run_part(&LoadedPart, report);
    EvidenceMeta {
        level: "exploration",
        rule: "(inbound datagrams of the loaded histories may end in a zero-length item and a third of the generated handlers would accept an empty slice) every datagram handed to the runtime in (1) a scripted emission of every message kind (API sends, probe timers, replies to Ping/PingReq/IndirectPing/IndirectAck/Announce, TurnUndead to a Down sender, refutation, renewal, leave) repeated for each max_packet_size from 4 bytes upward one byte at a time (through header + several members + several items), 5 backlog loads and 4 codecs (FixCodec, VarCodec, bundled postcard, bundled bincode); (3) every datagram of simulated clusters of 3..9 members (joins, a crash, a graceful leave, a partition and its healing; 4 codecs; packet sizes 40..400 and 1400) judged by the same grammar/size/src/dst/Feed rules and by the real receiver's result; (2) proptest random histories preloaded with 0..300 members, pending updates and 0..12 custom items of 2..400 bytes at packet sizes 6..65535 incl. set_config packet-size changes. Oracle: an independent grammar parser (header, [u16 count, exactly count members], {u16 len, len>0 bytes}*, nothing else; Announce/TurnUndead header only; Broadcast without member section; a piggybacking kind may omit the count only when <= 2 bytes are free after the header), len <= max_packet_size, header.src = identity at send time (identity chain), src_incarnation within the sender's incarnation during the call, header.dst = the identity handed to send_to, Feed members = active records of the sender other than receiver and sender without duplicates; then a fresh peer with identity dst, same codec and packet size must not answer Decode, MalformedPacket or DataTooBig. Non-trivial: a datagram for which the pending updates + items exceeded the free space after the header (or a Feed shorter than the active set); distinct = (kind, codec, #members, #items, bytes left)."
            .into(),
        assumptions: vec![
            "the receiving peer uses a handler that accepts every item (handler errors are not decode/malformed errors)".into(),
            "sender incarnation is read through the verif-hooks snapshot at call boundaries".into(),
        ],
    }
}

pub fn replay(part_name: &str, case: &Value) -> Option<Result<(), Fail>> {
    match part_name {
        "loaded-histories" => Some(replay_with(&LoadedPart, case)),
        "simulated-cluster-traffic" => Some(replay_with(&TrafficPart, case)),
        "packet-size-sweep" => Some((|| {
            let c: SweepCase = serde_json::from_value(case.clone()).map_err(|e| Fail::new("replay:bad-file", e.to_string()))?;
            exec_sweep(&c, &mut CaseOut::default())
        })()),
        _ => None,
    }
}
