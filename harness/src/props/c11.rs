//! C11 — Suspicion timeout takes effect iff unrefuted; Down is final until forgotten.
use crate::codec::{member_bytes, CodecKind};
use crate::engine::*;
use crate::ensure;
use crate::handler::HandlerSpec;
use crate::hist::*;
use crate::ident::*;
use crate::inst::*;
use crate::ops::*;
use crate::rt::{notes, sends, timers, Ev};
use foca::verif::Event as HookEv;
use foca::{Member, Message, OwnedNotification as N, State, Timer};
use serde::{Deserialize, Serialize};
use serde_json::Value;
use std::time::Duration;

/// Judges one delivery of a ChangeSuspectToDown timer. Returns (took_effect, class label).
/// `same_epoch`: no Idle / Defunct / Rejoin / identity change happened between the call that issued the
/// timer and this delivery (derived from notifications, not from the instance's own token).
pub fn judge_timeout(rec: &CallRec, cfg: &CfgSpec, codec: CodecKind, same_epoch: bool) -> Result<(bool, &'static str), Fail> {
    let Call::Timer(Timer::ChangeSuspectToDown { member_id, incarnation, token }) = &rec.call else {
        unreachable!()
    };
    let r = rec.before.record(member_id.addr);
    let _ = token;
    let token_current = same_epoch;
    let (effective, class) = match r {
        _ if !token_current => (false, "stale-token"),
        None => (false, "record-absent"),
        Some(r) if r.id() != member_id => {
            if r.id().gen > member_id.gen {
                (false, "newer-identity-recorded")
            } else {
                (false, "older-identity-recorded")
            }
        }
        Some(r) if r.state() == State::Down => (false, "already-down"),
        Some(r) if r.incarnation() != *incarnation => (false, "refuted-higher-incarnation"),
        Some(_) => (true, "unrefuted"),
    };
    if !effective {
        ensure!(rec.res == Res::Ok, "C11:ineffective-timeout-error", "cancelled/stale timeout ({class}) returned {:?}", rec.res);
        let sig = if sends(&rec.evs).any(|(_, b)| {
            crate::wire::parse(b, codec).map(|d| d.header.message == Message::TurnUndead).unwrap_or(false)
        }) {
            "C11:ineffective-timeout-sends-turnundead"
        } else if class == "older-identity-recorded" {
            "C11:timeout-for-unrecorded-newer-identity-applied"
        } else {
            "C11:ineffective-timeout-has-effect"
        };
        ensure!(
            rec.evs.is_empty(),
            sig,
            "timeout {:?} is cancelled or stale ({class}; record before: {:?}, current token {}) yet it caused {:?}",
            rec.call,
            r,
            rec.before.snap.timer_token,
            rec.evs
        );
        ensure!(
            rec.before == rec.after,
            "C11:ineffective-timeout-changes-state",
            "timeout {:?} is cancelled or stale ({class}) yet observable state changed:\n before {:?}\n after  {:?}",
            rec.call,
            rec.before.state,
            rec.after.state
        );
        return Ok((false, class));
    }
    // takes effect
    ensure!(rec.res == Res::Ok, "C11:effective-timeout-error", "unrefuted timeout returned {:?}", rec.res);
    let after = rec.after.record(member_id.addr);
    ensure!(
        matches!(after, Some(a) if a.id() == member_id && a.state() == State::Down),
        "C11:unrefuted-timeout-did-not-down",
        "unrefuted timeout for {} left the record as {:?}",
        member_id,
        after
    );
    let downs = notes(&rec.evs).filter(|n| matches!(n, N::MemberDown(x) if x == member_id)).count();
    ensure!(downs == 1, "C11:memberdown-count", "unrefuted timeout for {} notified MemberDown {} times", member_id, downs);
    let forget: Vec<_> = timers(&rec.evs).filter(|(t, _)| matches!(t, Timer::RemoveDown(x) if x == member_id)).collect();
    ensure!(
        forget.len() == 1 && *forget[0].1 == Duration::from_millis(cfg.remove_down_ms as u64),
        "C11:forget-timer",
        "unrefuted timeout for {} scheduled forget-timers {:?} (expected exactly one after {} ms)",
        member_id,
        forget,
        cfg.remove_down_ms
    );
    let down_bytes = member_bytes(codec, &Member::new(*member_id, *incarnation, State::Down));
    ensure!(
        rec.hook.iter().any(|e| matches!(e, HookEv::UpdateQueued(b) if *b == down_bytes)),
        "C11:down-not-gossiped",
        "unrefuted timeout for {} did not queue a Down update for dissemination",
        member_id
    );
    let pending = rec.after.snap.updates.iter().any(|(b, _)| *b == down_bytes);
    ensure!(pending || !sends(&rec.evs).next().is_none(), "C11:down-not-gossiped", "Down update for {} neither pending nor sent", member_id);
    let tus: Vec<_> = sends(&rec.evs)
        .filter(|(_, b)| crate::wire::parse(b, codec).map(|d| d.header.message == Message::TurnUndead).unwrap_or(false))
        .collect();
    if cfg.notify_down {
        ensure!(tus.len() == 1 && tus[0].0 == member_id, "C11:turnundead-missing", "notify_down_members is on but TurnUndead datagrams were {:?}", tus.iter().map(|t| t.0).collect::<Vec<_>>());
    } else {
        ensure!(tus.is_empty(), "C11:turnundead-unexpected", "notify_down_members is off but TurnUndead was sent");
    }
    ensure!(sends(&rec.evs).count() == tus.len(), "C11:unexpected-send", "timeout sent datagrams other than TurnUndead: {:?}", rec.evs);
    let idle = notes(&rec.evs).any(|n| matches!(n, N::Idle));
    let expect_idle = rec.before.conn() == 1 && rec.after.num_members == 0;
    ensure!(idle == expect_idle, "C11:idle-after-last-member", "Idle notified = {idle}, expected {expect_idle} (active before: {}, members after: {})", rec.before.conn() == 1, rec.after.num_members);
    Ok((true, if expect_idle { "unrefuted-last-member" } else { "unrefuted" }))
}

pub struct Mon {
    codec: CodecKind,
    effective: u64,
    ineffective: u64,
    classes: std::collections::BTreeMap<&'static str, u64>,
    /// per issued timeout: number of calls that touched the same address between issue and delivery
    intervening: bool,
    touched: std::collections::BTreeMap<u16, usize>,
    calls: u64,
    forgets: u64,
    conn: ConnTracker,
    epoch_after_call: Vec<u64>,
}

impl Mon {
    pub fn new(codec: CodecKind) -> Self {
        Mon { codec, effective: 0, ineffective: 0, classes: Default::default(), intervening: false, touched: Default::default(), calls: 0, forgets: 0, conn: ConnTracker::default(), epoch_after_call: Vec::new() }
    }
}

impl Monitor for Mon {
    fn on_call(&mut self, rec: &CallRec, origin: &Origin, runner: &Runner) -> Result<(), Fail> {
        self.calls += 1;
        // finality of Down
        for old in &rec.before.state {
            if old.state() != State::Down {
                continue;
            }
            if let Some(new) = rec.after.record(old.id().addr) {
                if new.id() == old.id() {
                    ensure!(new.state() == State::Down, "C11:down-became-active", "{} was Down and is {:?} after {}", old.id(), new.state(), rec.call.kind());
                }
            } else {
                let ok = matches!(&rec.call, Call::Timer(Timer::RemoveDown(x)) if x == old.id());
                ensure!(ok, "C11:down-record-vanished", "Down record {} disappeared in {} (not its forget-timer)", old.id(), rec.call.kind());
            }
        }
        // "final until forgotten": whatever made a record Down (timeout, gossip, apply_many with or without
        // broadcasting, a Down identity superseding another) also scheduled its forgetting, exactly once
        for new in &rec.after.state {
            if new.state() != State::Down {
                continue;
            }
            let was_down_already = matches!(rec.before.record_of(new.id()), Some(m) if m.state() == State::Down);
            if was_down_already {
                continue;
            }
            let want = Duration::from_millis(runner.inst.cfg.remove_down_ms as u64);
            let n = timers(&rec.evs).filter(|(t, d)| matches!(t, Timer::RemoveDown(x) if x == new.id()) && **d == want).count();
            ensure!(
                n == 1,
                "C11:down-without-forget-timer",
                "{} became Down in {} but {} forget-timers (RemoveDown after {} ms) were scheduled for it: it would never be forgotten (or forgotten at the wrong time)",
                new.id(),
                rec.call.kind(),
                n,
                runner.inst.cfg.remove_down_ms
            );
        }
        // forget-timer: removes exactly that Down identity, nothing else
        if let Call::Timer(Timer::RemoveDown(x)) = &rec.call {
            ensure!(rec.res == Res::Ok && rec.evs.is_empty(), "C11:forget-timer-effects", "RemoveDown({x}) returned {:?} with effects {:?}", rec.res, rec.evs);
            let was_down = matches!(rec.before.record_of(x), Some(m) if m.state() == State::Down);
            if was_down {
                self.forgets += 1;
                let expect: Vec<_> = rec.before.state.iter().filter(|m| m.id() != x).cloned().collect();
                let mut got = rec.after.state.clone();
                let mut exp = expect;
                got.sort_by_key(|m| m.id().key());
                exp.sort_by_key(|m| m.id().key());
                ensure!(got == exp, "C11:forget-timer-wrong-removal", "RemoveDown({x}) changed the state from {:?} to {:?}", rec.before.state, rec.after.state);
            } else {
                ensure!(rec.before.state == rec.after.state, "C11:forget-timer-removed-other", "RemoveDown({x}) with no such Down record changed the state from {:?} to {:?}", rec.before.state, rec.after.state);
            }
        }
        // timeouts Foca itself issued (first or repeated delivery)
        if let (Call::Timer(Timer::ChangeSuspectToDown { member_id, .. }), Origin::Issued(p) | Origin::Old(p)) = (&rec.call, origin) {
            let issued_epoch = self.epoch_after_call.get(p.issued_in).copied().unwrap_or(0);
            let (eff, class) = judge_timeout(rec, &runner.inst.cfg, self.codec, issued_epoch == self.conn.epoch)?;
            if eff {
                self.effective += 1;
            } else {
                self.ineffective += 1;
            }
            *self.classes.entry(class).or_insert(0) += 1;
            let t = self.touched.get(&member_id.addr).copied().unwrap_or(0);
            if t > p.issued_in {
                self.intervening = true;
            }
        }
        // remember the last call that changed a record, per address
        for m in &rec.after.state {
            if rec.before.record(m.id().addr) != Some(m) {
                self.touched.insert(m.id().addr, runner.ncalls);
            }
        }
        let _ = Ev::Note(N::Idle);
        self.conn.absorb(rec);
        self.epoch_after_call.push(self.conn.epoch);
        Ok(())
    }
    fn finish(&mut self, out: &mut CaseOut) {
        out.sub_evaluations += self.calls;
        out.class_n("timeouts_effective", self.effective);
        out.class_n("timeouts_ineffective", self.ineffective);
        out.class_n("forget_timers_effective", self.forgets);
        for (k, v) in &self.classes {
            out.class_n(k, *v);
        }
        if self.intervening {
            out.class("timeout_after_intervening_event");
            out.nontrivial((self.classes.keys().collect::<Vec<_>>(), self.effective.min(4), self.ineffective.min(6)));
        }
    }
}

fn part_random() -> HistPart<Mon, impl Fn(&Setup) -> Mon + Sync> {
    let mut p = Profile::default();
    p.old_timers = true;
    p.max_len = 150;
    p.timers_weight = 45;
    p.n_addr = 4;
    let sp = SetupProfile::default();
    HistPart { name: "random-histories", sp, p, cases_quick: 120_000, cases_thorough: 2_000_000, mk: |s: &Setup| Mon::new(s.codec) }
}

// ---------------------------------------------------------------------------------------
// Case table: every cell reached through real API calls
// ---------------------------------------------------------------------------------------

#[derive(Clone, Copy, Debug, Serialize, Deserialize, PartialEq, Eq, Hash)]
pub enum Event {
    None,
    HeaderSameInc,
    HeaderHigherInc,
    UpdateAliveHigherInc,
    UpdateSuspectHigherInc,
    UpdateSuspectSameInc,
    OtherDownGossip,
    NewerIdentityHeader,
    NewerIdentityDownUpdate,
    NewerIdentitySuspectUpdate,
    ForgottenThenSameIdentityRejoins,
    ForgottenThenOlderIdentityJoins,
    ForgottenOnly,
    ChangeIdentity,
    SelfDownDefunctOrRejoin,
    IdleThenActiveAgain,
    LeaveCluster,
}

pub const EVENTS: [Event; 17] = [
    Event::None,
    Event::HeaderSameInc,
    Event::HeaderHigherInc,
    Event::UpdateAliveHigherInc,
    Event::UpdateSuspectHigherInc,
    Event::UpdateSuspectSameInc,
    Event::OtherDownGossip,
    Event::NewerIdentityHeader,
    Event::NewerIdentityDownUpdate,
    Event::NewerIdentitySuspectUpdate,
    Event::ForgottenThenSameIdentityRejoins,
    Event::ForgottenThenOlderIdentityJoins,
    Event::ForgottenOnly,
    Event::ChangeIdentity,
    Event::SelfDownDefunctOrRejoin,
    Event::IdleThenActiveAgain,
    Event::LeaveCluster,
];

#[derive(Clone, Debug, Serialize, Deserialize)]
pub struct Cell {
    pub event: Event,
    pub notify_down: bool,
    pub bystander: bool,
    pub duplicate: bool,
    pub renewable: bool,
    pub target_inc: u16,
    pub codec: CodecKind,
    pub rng_seed: u64,
    /// identity changes performed before anything else (moves the 8-bit timer token to any value)
    #[serde(default)]
    pub pre_epochs: u16,
}

/// cells in which the epoch changes between issue and delivery, for token values around the wrap
fn token_cell(i: u64) -> Cell {
    let mut x = i;
    let mut take = |n: u64| {
        let r = x % n;
        x /= n;
        r
    };
    let event = [Event::LeaveCluster, Event::SelfDownDefunctOrRejoin, Event::ChangeIdentity, Event::IdleThenActiveAgain, Event::None, Event::HeaderHigherInc][take(6) as usize];
    let pre_epochs = [1u16, 127, 252, 253, 254, 255, 256, 257, 511][take(9) as usize];
    let notify_down = take(2) == 1;
    let renewable = take(2) == 1;
    let bystander = take(2) == 1;
    Cell { event, notify_down, bystander, duplicate: true, renewable, target_inc: 0, codec: CodecKind::Fix, rng_seed: take(3), pre_epochs }
}
const TOKEN_CELLS: u64 = 6 * 9 * 2 * 2 * 2 * 3;

fn cell(i: u64) -> Cell {
    let mut x = i;
    let mut take = |n: u64| {
        let r = x % n;
        x /= n;
        r
    };
    let event = EVENTS[take(EVENTS.len() as u64) as usize];
    let notify_down = take(2) == 1;
    let bystander = take(2) == 1;
    let duplicate = take(2) == 1;
    let renewable = take(2) == 1;
    let target_inc = [0u16, 3, u16::MAX - 1][take(3) as usize];
    let codec = [CodecKind::Fix, CodecKind::Var][take(2) as usize];
    let rng_seed = take(4);
    Cell { event, notify_down, bystander, duplicate, renewable, target_inc, codec, rng_seed, pre_epochs: 0 }
}
const CELLS: u64 = 17 * 2 * 2 * 2 * 2 * 3 * 2 * 4;

fn gossip(r: &Runner, src: Id, inc: u16, members: Vec<Member<Id>>) -> Call {
    let h = foca::Header { src, src_incarnation: inc, dst: r.own(), message: Message::Gossip };
    Call::Data(crate::wire::build(r.inst.codec, &h, Some(&members), &[]))
}

thread_local! {
    static CELL_CONN: std::cell::RefCell<ConnTracker> = std::cell::RefCell::new(ConnTracker::default());
}
fn cell_epoch() -> u64 {
    CELL_CONN.with(|c| c.borrow().epoch)
}

fn do_call(r: &mut Runner, c: Call, log: &mut Vec<String>) -> CallRec {
    let rec = r.inst.call(c);
    CELL_CONN.with(|c| c.borrow_mut().absorb(&rec));
    r.absorb(&rec, &Origin::NotTimer);
    log.push(rec.render(r.inst.codec));
    rec
}

fn do_gossip(r: &mut Runner, src: Id, inc: u16, members: Vec<Member<Id>>, log: &mut Vec<String>) -> CallRec {
    let c = gossip(r, src, inc, members);
    do_call(r, c, log)
}

fn fire_where(r: &mut Runner, log: &mut Vec<String>, pred: impl Fn(&Timer<Id>) -> bool) -> Option<CallRec> {
    let i = r.pool.iter().position(|p| pred(&p.timer))?;
    let p = r.pool.remove(i);
    let rec = r.inst.call(Call::Timer(p.timer.clone()));
    CELL_CONN.with(|c| c.borrow_mut().absorb(&rec));
    r.absorb(&rec, &Origin::Issued(p));
    log.push(rec.render(r.inst.codec));
    Some(rec)
}

pub fn exec_cell(c: &Cell, out: &mut CaseOut) -> Result<(), Fail> {
    let setup = Setup {
        own_gen: 1,
        own_renew: if c.renewable { RENEW_NEXT } else { RENEW_NONE },
        cfg: CfgSpec { notify_down: c.notify_down, remove_down_ms: 7777, max_tx: 3, num_indirect: 2, ..CfgSpec::default() },
        codec: c.codec,
        rng_seed: c.rng_seed,
        handler: HandlerSpec::OFF,
    };
    let mut r = Runner::new(&setup);
    let mut log: Vec<String> = Vec::new();
    CELL_CONN.with(|c| *c.borrow_mut() = ConnTracker::default());
    for i in 0..c.pre_epochs {
        let renew = if c.renewable { RENEW_NEXT } else { RENEW_NONE };
        do_call(&mut r, Call::ChangeIdentity(Id::with_renew(OWN_ADDR, 5 + (i % 2), renew)), &mut log);
        log.clear();
    }
    let t = Id::new(1, 2);
    let b = Id::new(2, 0);
    let inc = c.target_inc;
    do_gossip(&mut r, t, inc, vec![], &mut log);
    if c.bystander {
        do_gossip(&mut r, b, 0, vec![], &mut log);
    }
    // probe until T is suspected; the bystander always answers
    let mut timeout: Option<Timer<Id>> = None;
    for _round in 0..12 {
        let Some(rec) = fire_where(&mut r, &mut log, |t| matches!(t, Timer::ProbeRandomMember(_))) else { break };
        if let Some((tm, _)) = timers(&rec.evs).find(|(tm, _)| matches!(tm, Timer::ChangeSuspectToDown { member_id, .. } if *member_id == t)) {
            timeout = Some(tm.clone());
            break;
        }
        if let Some((to, n)) = r.last_ping {
            if to == b {
                let h = foca::Header { src: b, src_incarnation: 0, dst: r.own(), message: Message::Ack(n) };
                let bytes = crate::wire::build(r.inst.codec, &h, Some(&[]), &[]);
                do_call(&mut r, Call::Data(bytes), &mut log);
            }
        }
        fire_where(&mut r, &mut log, |t| matches!(t, Timer::SendIndirectProbe { .. }));
    }
    let issue_epoch = cell_epoch();
    let Some(timeout) = timeout else {
        return Err(Fail::new("C11:table-setup", format!("could not raise a suspicion through probing:\n  {}", log.join("\n  "))));
    };
    // remove the timeout from the pool: the harness delivers it by hand below
    let pos = r.pool.iter().position(|p| p.timer == timeout).unwrap();
    let pending = r.pool.remove(pos);
    let t_new = Id::new(1, 3);
    let t_old = Id::new(1, 1);
    let hi = inc.saturating_add(1);
    let other = if c.bystander { b } else { Id::new(3, 0) };
    match c.event {
        Event::None => {}
        Event::HeaderSameInc => {
            do_gossip(&mut r, t, inc, vec![], &mut log);
        }
        Event::HeaderHigherInc => {
            do_gossip(&mut r, t, hi, vec![], &mut log);
        }
        Event::UpdateAliveHigherInc => {
            do_gossip(&mut r, other, 0, vec![Member::new(t, hi, State::Alive)], &mut log);
        }
        Event::UpdateSuspectHigherInc => {
            do_gossip(&mut r, other, 0, vec![Member::new(t, hi, State::Suspect)], &mut log);
        }
        Event::UpdateSuspectSameInc => {
            do_gossip(&mut r, other, 0, vec![Member::new(t, inc, State::Suspect)], &mut log);
        }
        Event::OtherDownGossip => {
            do_gossip(&mut r, other, 0, vec![Member::new(t, inc, State::Down)], &mut log);
        }
        Event::NewerIdentityHeader => {
            do_gossip(&mut r, t_new, 0, vec![], &mut log);
        }
        Event::NewerIdentityDownUpdate => {
            do_gossip(&mut r, other, 0, vec![Member::new(t_new, 0, State::Down)], &mut log);
        }
        Event::NewerIdentitySuspectUpdate => {
            do_gossip(&mut r, other, 0, vec![Member::new(t_new, inc, State::Suspect)], &mut log);
        }
        Event::ForgottenThenSameIdentityRejoins | Event::ForgottenThenOlderIdentityJoins | Event::ForgottenOnly => {
            do_gossip(&mut r, other, 0, vec![Member::new(t, inc, State::Down)], &mut log);
            fire_where(&mut r, &mut log, |x| matches!(x, Timer::RemoveDown(y) if *y == t));
            match c.event {
                Event::ForgottenThenSameIdentityRejoins => {
                    do_gossip(&mut r, t, inc, vec![], &mut log);
                }
                Event::ForgottenThenOlderIdentityJoins => {
                    do_gossip(&mut r, t_old, inc, vec![], &mut log);
                }
                _ => {}
            }
        }
        Event::ChangeIdentity => {
            do_call(&mut r, Call::ChangeIdentity(Id::with_renew(OWN_ADDR, 9, RENEW_NONE)), &mut log);
            // become active again under the new identity
            do_gossip(&mut r, other, 0, vec![], &mut log);
        }
        Event::SelfDownDefunctOrRejoin => {
            let own = r.own();
            do_gossip(&mut r, other, 0, vec![Member::new(own, 0, State::Down)], &mut log);
        }
        Event::IdleThenActiveAgain => {
            // every known member goes Down, then someone new shows up
            let known: Vec<Member<Id>> = r.inst.foca.iter_members().map(|m| Member::new(*m.id(), m.incarnation(), State::Down)).collect();
            do_call(&mut r, Call::ApplyMany(known, true), &mut log);
            do_gossip(&mut r, Id::new(4, 0), 0, vec![], &mut log);
        }
        Event::LeaveCluster => {
            do_call(&mut r, Call::Leave, &mut log);
        }
    }
    let deliveries = if c.duplicate { 2 } else { 1 };
    let mut labels = Vec::new();
    for k in 0..deliveries {
        let same_epoch = cell_epoch() == issue_epoch;
        let rec = r.inst.call(Call::Timer(timeout.clone()));
        CELL_CONN.with(|c| c.borrow_mut().absorb(&rec));
        r.absorb(&rec, &if k == 0 { Origin::Issued(pending.clone()) } else { Origin::Old(pending.clone()) });
        log.push(rec.render(r.inst.codec));
        match judge_timeout(&rec, &r.inst.cfg, c.codec, same_epoch) {
            Ok((eff, class)) => {
                if k == 1 {
                    // a duplicate can never take effect twice
                    let first_eff = labels.first().map(|(e, _)| *e).unwrap_or(false);
                    if first_eff && eff {
                        return Err(Fail::new("C11:duplicate-timeout-effective", format!("the same timeout took effect twice:\n  {}", log.join("\n  "))));
                    }
                }
                labels.push((eff, class));
            }
            Err(mut f) => {
                f.message = format!("{}\n cell {:?}\n  {}", f.message, c, log.join("\n  "));
                return Err(f);
            }
        }
    }
    // after an effective timeout + forget the identity may rejoin
    if labels[0].0 {
        fire_where(&mut r, &mut log, |x| matches!(x, Timer::RemoveDown(y) if *y == t));
        let rec = do_call(&mut r, Call::ApplyMany(vec![Member::new(t, inc, State::Alive)], true), &mut log);
        if rec.after.conn() != 2 {
            ensure!(
                rec.after.is_active(&t),
                "C11:cannot-rejoin-after-forget",
                "after the forget-timer for {t} fired, an Alive update for it was not accepted:\n  {}",
                log.join("\n  ")
            );
        }
    }
    out.nontrivial((c.event, c.notify_down, c.bystander, c.duplicate, c.renewable, c.target_inc, labels.clone()));
    for (_, l) in &labels {
        out.class(match *l {
            "unrefuted" => "cell_unrefuted",
            "unrefuted-last-member" => "cell_unrefuted_last_member",
            "stale-token" => "cell_stale_token",
            "record-absent" => "cell_record_absent",
            "newer-identity-recorded" => "cell_newer_identity",
            "older-identity-recorded" => "cell_older_identity",
            "already-down" => "cell_already_down",
            _ => "cell_refuted_higher_incarnation",
        });
    }
    if out.want_sample {
        out.sample = Some(serde_json::json!({"cell": c, "calls": log}));
    }
    Ok(())
}

pub fn run(ctx: &Ctx, report: &mut Report) -> EvidenceMeta {
    ctx.run_enum("case-table", CELLS, cell, exec_cell, report, true);
    ctx.run_enum("case-table-across-token-values", TOKEN_CELLS, token_cell, exec_cell, report, true);
    ctx.run_part(&part_random(), report);
    EvidenceMeta {
        level: "exploration",
        rule: "(1) complete case table: 17 intervening events between raising a suspicion (through a real failed probe) and delivering its timeout (nothing, header/update refutation at same/higher incarnation, other member's Down gossip, newer identity via header/Down/Suspect update, forget then same/older identity rejoins, change_identity, self Down, idle-then-active, leave) x notify_down x bystander present x duplicate delivery x renewable x target incarnation {0,3,MAX-1} x codec x 4 RNG seeds, every cell reached through real API calls; (1b) the epoch-changing events again after 1..511 earlier identity changes so that the 8-bit timer token takes the values around its wrap; (2) proptest random histories in which issued timeouts and forget-timers fire at random positions, repeatedly. Oracle: the timeout takes effect iff token current, record shows the same identity at the same incarnation and is active; then Down + MemberDown once + RemoveDown after remove_down_after + Down update queued + TurnUndead iff notify_down + Idle iff last member; otherwise no effect at all (no event, identical views). Down never becomes active under the same identity; every call after which an identity is newly recorded Down (timeout, gossip, apply_many with or without broadcasting, a Down identity superseding another) scheduled exactly one RemoveDown for it after remove_down_after; records vanish only by their own forget-timer. Non-trivial: every table cell (distinct by outcome), random histories where a timeout fired after an intervening change of the same address."
            .into(),
        assumptions: vec![
            "'same incarnation as when the suspicion was raised' is read as: record incarnation equals the timer's and the record is active (a member forgotten and re-registered at the same incarnation is indistinguishable)".into(),
        ],
    }
}

pub fn replay(part_name: &str, case: &Value) -> Option<Result<(), Fail>> {
    match part_name {
        "random-histories" => Some(replay_with(&part_random(), case)),
        "case-table" | "case-table-across-token-values" => Some((|| {
            let c: Cell = serde_json::from_value(case.clone()).map_err(|e| Fail::new("replay:bad-file", e.to_string()))?;
            exec_cell(&c, &mut CaseOut::default())
        })()),
        _ => None,
    }
}
