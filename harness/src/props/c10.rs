//! C10 — Incarnation discipline, self-refutation and reaction to one's own death.
use crate::codec::{member_bytes, CodecKind};
use crate::engine::*;
use crate::ensure;
use crate::hist::*;
use crate::ident::*;
use crate::inst::*;
use crate::model;
use crate::ops::*;
use crate::rt::notes;
use foca::verif::Event as HookEv;
use foca::{Identity, Member, Message, OwnedNotification as N, State};
use serde_json::Value;
use std::collections::BTreeMap;

pub struct Mon {
    codec: CodecKind,
    /// highest incarnation ever input for an identity (update, header, apply_many)
    told: BTreeMap<Id, u16>,
    former_own: Vec<Id>,
    /// header ledger: last header incarnation observed for the current identity epoch
    ledger_id: Option<Id>,
    ledger_inc: u16,
    defunct: bool,
    // classification
    refutations: u32,
    sends_after_refutation: u32,
    max_boundary: bool,
    failed_renew: bool,
    stale_suspicions: u32,
    calls: u64,
    trace: Vec<u8>,
}

impl Mon {
    pub fn new(codec: CodecKind) -> Self {
        Mon {
            codec,
            told: BTreeMap::new(),
            former_own: Vec::new(),
            ledger_id: None,
            ledger_inc: 0,
            defunct: false,
            refutations: 0,
            sends_after_refutation: 0,
            max_boundary: false,
            failed_renew: false,
            stale_suspicions: 0,
            calls: 0,
            trace: Vec::new(),
        }
    }
    fn tell(&mut self, id: &Id, inc: u16) {
        let e = self.told.entry(*id).or_insert(0);
        if inc > *e {
            *e = inc;
        }
    }
}

impl Monitor for Mon {
    fn on_call(&mut self, rec: &CallRec, _o: &Origin, runner: &Runner) -> Result<(), Fail> {
        self.calls += 1;
        let max_packet = runner.inst.cfg.max_packet as usize;
        let d = model::delivered(rec, max_packet, self.codec);
        // --- inputs: what the instance was told (before judging what it tells others)
        if let Some((src, inc)) = d.src {
            self.tell(&src, inc);
        }
        for u in &d.updates {
            self.tell(u.id(), u.incarnation());
        }
        if let Call::Data(b) = &rec.call {
            if let Ok(dg) = crate::wire::parse(b, self.codec) {
                self.tell(&dg.header.src, dg.header.src_incarnation);
                for m in dg.members.iter().flatten() {
                    self.tell(m.id(), m.incarnation());
                }
            }
        }
        let chain = identity_chain(rec);
        let identity_changed = chain.len() > 1;
        let reused = matches!(rec.call, Call::ReuseDown) && rec.res.is_ok();
        let inc0 = rec.before.snap.incarnation;
        let inc1 = rec.after.snap.incarnation;
        let was_defunct = self.defunct;

        // --- simulate the statement's rule along the delivered suspicions about the current identity
        let mut sim = inc0;
        let mut sim_id = rec.before.identity;
        let mut unrefutable = false;
        let mut self_down = false;
        let mut qualifying: Vec<u16> = Vec::new(); // suspected incarnations that required a bump
        for u in &d.updates {
            if *u.id() != sim_id {
                continue;
            }
            match u.state() {
                State::Suspect => {
                    if u.incarnation() >= sim {
                        if u.incarnation() == u16::MAX {
                            unrefutable = true;
                            self.max_boundary = true;
                            break;
                        }
                        sim = u.incarnation() + 1;
                        qualifying.push(u.incarnation());
                    } else {
                        if sim == u16::MAX {
                            self.max_boundary = true;
                        }
                        self.stale_suspicions += 1;
                    }
                }
                State::Down => {
                    self_down = true;
                    break;
                }
                State::Alive => {}
            }
        }
        let _ = &mut sim_id;
        let tu = matches!(d.message, Some(Message::TurnUndead)) && d.class.as_ref().map(|c| c.accepted()).unwrap_or(false);

        // --- incarnation discipline (hook: exact own incarnation at call boundaries)
        if !identity_changed && !reused {
            ensure!(inc1 >= inc0, "C10:incarnation-decreased", "own incarnation went from {inc0} to {inc1} without an identity change or reuse_down_identity");
            if inc1 > inc0 {
                ensure!(
                    !qualifying.is_empty(),
                    "C10:incarnation-grew-without-suspicion",
                    "own incarnation grew {inc0} -> {inc1} in a call that delivered no suspicion about {} at an incarnation >= {inc0}",
                    rec.before.identity
                );
                ensure!(inc1 <= sim, "C10:incarnation-grew-too-much", "own incarnation grew {inc0} -> {inc1}, more than the suspicions delivered justify ({sim})");
                ensure!(!was_defunct, "C10:defunct-instance-refutes", "a Defunct instance raised its incarnation {inc0} -> {inc1} (it carries on under a dead identity)");
            }
            if d.processed && !unrefutable && !self_down && !was_defunct && rec.res.is_ok() && !tu {
                ensure!(
                    inc1 == sim,
                    "C10:suspicion-not-refuted",
                    "after processing suspicions {:?} about {} (own incarnation {inc0}) the incarnation is {inc1}, expected {sim}",
                    qualifying,
                    rec.before.identity
                );
            }
        } else {
            // new identity (or reuse): the count restarts at 0; any growth must come from suspicions in this very call
            if identity_changed {
                for x in &chain[..chain.len() - 1] {
                    if !self.former_own.contains(x) {
                        self.former_own.push(*x);
                    }
                }
            }
            if matches!(rec.call, Call::ChangeIdentity(_)) || reused {
                ensure!(inc1 == 0, "C10:incarnation-not-reset", "own incarnation is {inc1} right after {}", rec.call.kind());
            }
        }

        // --- outgoing headers and member entries
        if reused {
            // explicitly reusing a down identity restarts the count
            self.ledger_id = None;
        }
        let sent = sent_dgrams(rec, self.codec, "C10")?;
        for s in &sent {
            let h = &s.dgram.header;
            if self.ledger_id != Some(s.identity) {
                self.ledger_id = Some(s.identity);
                // starts at 0 for each identity unless suspicions in this call already raised it
                let bound = if identity_changed || reused { sim.max(inc1) } else { inc1 };
                ensure!(
                    h.src_incarnation <= bound,
                    "C10:new-identity-incarnation-not-from-zero",
                    "first datagram under identity {} carries incarnation {}",
                    s.identity,
                    h.src_incarnation
                );
                self.ledger_inc = h.src_incarnation;
            } else {
                ensure!(
                    h.src_incarnation >= self.ledger_inc,
                    "C10:header-incarnation-decreased",
                    "datagram carries incarnation {} after an earlier one under the same identity {} carried {}",
                    h.src_incarnation,
                    s.identity,
                    self.ledger_inc
                );
                self.ledger_inc = h.src_incarnation;
            }
            if !identity_changed && !reused {
                ensure!(
                    h.src_incarnation >= inc0 && h.src_incarnation <= inc1,
                    "C10:header-incarnation-not-own",
                    "datagram carries incarnation {} but the instance's own incarnation is {inc0}..{inc1} during this call",
                    h.src_incarnation
                );
            }
            for m in s.dgram.members.iter().flatten() {
                if *m.id() == s.identity {
                    continue;
                }
                let cap = if self.former_own.contains(m.id()) || chain.contains(m.id()) {
                    self.told.get(m.id()).copied().unwrap_or(0)
                } else {
                    match self.told.get(m.id()) {
                        Some(c) => *c,
                        None => {
                            return Err(Fail::new(
                                "C10:fabricated-member",
                                format!("datagram tells about {:?} which no input ever mentioned", m),
                            ))
                        }
                    }
                };
                ensure!(
                    m.incarnation() <= cap,
                    "C10:fabricated-incarnation",
                    "datagram tells about {} at incarnation {} but the highest incarnation ever input for it is {}",
                    m.id(),
                    m.incarnation(),
                    cap
                );
            }
            if self.refutations > 0 {
                self.sends_after_refutation += 1;
            }
        }
        if identity_changed && self.ledger_id != Some(rec.after.identity) {
            // identity changed without any datagram under the new one yet: the count restarts
            self.ledger_id = None;
        }
        if !qualifying.is_empty() && inc1 > inc0 {
            self.refutations += 1;
            self.trace.push(1);
        }

        // --- while Defunct: no automatic traffic except TurnUndead replies; API-driven sends are the caller's choice
        let api_send = matches!(rec.call, Call::Gossip | Call::Announce(_) | Call::Broadcast | Call::Leave | Call::ChangeIdentity(_));
        if was_defunct && !api_send && !identity_changed {
            for s in &sent {
                ensure!(
                    s.dgram.header.message == Message::TurnUndead,
                    "C10:defunct-instance-sends",
                    "a Defunct instance sent {:?} to {} while handling {} (it carries on under a dead identity)",
                    s.dgram.header.message,
                    s.to,
                    rec.call.kind()
                );
            }
        }

        // --- reaction to one's own death
        let ns: Vec<&N<Id>> = notes(&rec.evs).collect();
        let rejoined: Vec<Id> = ns.iter().filter_map(|n| if let N::Rejoin(x) = n { Some(*x) } else { None }).collect();
        let defunct_note = ns.iter().any(|n| matches!(n, N::Defunct));
        let mut prev = rec.before.identity;
        for x in &rejoined {
            ensure!(*x != prev && x.win_addr_conflict(&prev), "C10:rejoin-identity-not-winning", "Rejoin({x}) does not differ from and win against {prev}");
            // the old identity must be gossiped as Down: queued in this call (hook) unless it already was Defunct (already declared)
            let down_bytes = member_bytes(self.codec, &Member::new(prev, 0, State::Down));
            let qpos = rec.hook.iter().position(|e| matches!(e, HookEv::UpdateQueued(b) if *b == down_bytes));
            let queued = qpos.is_some();
            // one backlog entry per address: a fresher update for the same address accepted later in
            // the same call legitimately supersedes it (C15)
            let superseded = qpos.map_or(false, |q| {
                rec.hook.iter().skip(q + 1).any(|e| match e {
                    HookEv::UpdateQueued(b) => {
                        let mut cur: &[u8] = b;
                        foca::Codec::decode_member(&mut crate::codec::AnyCodec(self.codec), &mut cur)
                            .map(|m: Member<Id>| m.id().addr == prev.addr)
                            .unwrap_or(false)
                    }
                    _ => false,
                })
            });
            let in_sent = sent.iter().any(|s| s.dgram.members.iter().flatten().any(|m| *m.id() == prev && m.state() == State::Down));
            let pending = rec.after.snap.updates.iter().any(|(b, _)| *b == down_bytes);
            if !(was_defunct && prev == rec.before.identity) {
                ensure!(
                    queued,
                    "C10:old-identity-not-declared-down",
                    "renewed from {prev} to {x} without queueing a Down update for {prev}"
                );
                ensure!(
                    in_sent || pending || superseded,
                    "C10:old-identity-not-gossiped",
                    "renewed from {prev} to {x}: Down({prev}) is neither in a datagram sent in this call nor pending in the backlog nor superseded by a fresher update for that address"
                );
            }
            prev = *x;
        }
        // --- per-identity accounting across renewals inside one call: every Rejoin needs its own cause
        // (Down / TurnUndead / unrefutable suspicion about the identity held at that moment), and the
        // identity the call ends with carries exactly the incarnation its own suspicions justify
        if (d.processed || tu) && rec.res.is_ok() && matches!(rec.call, Call::Data(_) | Call::ApplyMany(..)) {
            let mut cur = rec.before.identity;
            let mut cur_inc = inc0;
            let mut alive = !was_defunct;
            let mut used = 0usize;
            let mut causes: Vec<String> = Vec::new();
            let mut on_cause = |what: String, cur: &mut Id, cur_inc: &mut u16, alive: &mut bool, used: &mut usize| {
                causes.push(what);
                if *used < rejoined.len() {
                    *cur = rejoined[*used];
                    *used += 1;
                    *cur_inc = 0;
                } else {
                    *alive = false;
                }
            };
            if tu && alive {
                on_cause(format!("TurnUndead to {cur}"), &mut cur, &mut cur_inc, &mut alive, &mut used);
            }
            for u in &d.updates {
                if !alive {
                    break;
                }
                if *u.id() != cur {
                    continue;
                }
                let cause = match u.state() {
                    State::Down => true,
                    State::Suspect => {
                        if u.incarnation() >= cur_inc {
                            if u.incarnation() == u16::MAX {
                                true
                            } else {
                                cur_inc = u.incarnation() + 1;
                                false
                            }
                        } else {
                            false
                        }
                    }
                    State::Alive => false,
                };
                if cause {
                    on_cause(format!("{:?}({}, {})", u.state(), u.id(), u.incarnation()), &mut cur, &mut cur_inc, &mut alive, &mut used);
                }
            }
            ensure!(
                used == rejoined.len(),
                "C10:renewed-without-cause",
                "the call notified {} renewals {:?} but only {} of them have a cause (a Down / TurnUndead / unrefutable suspicion about the identity held at that moment): causes {:?}",
                rejoined.len(),
                rejoined,
                used,
                causes
            );
            if alive && rec.after.conn() != 2 && !rejoined.is_empty() {
                ensure!(
                    inc1 == cur_inc,
                    "C10:renewed-identity-incarnation",
                    "the call ends with identity {} at incarnation {inc1}; the suspicions about that identity delivered after it was adopted justify {cur_inc} (each identity starts at 0 and grows only on suspicions about itself)",
                    rec.after.identity
                );
            }
        }
        let learned_down = (d.processed && self_down) || tu;
        if learned_down && rec.res.is_ok() && !was_defunct {
            self.trace.push(2);
            ensure!(
                !rejoined.is_empty() || defunct_note,
                "C10:carries-on-under-dead-identity",
                "the instance learned that its identity {} is Down but neither renewed (Rejoin) nor became Defunct",
                rec.before.identity
            );
            if rejoined.is_empty() {
                // renew() yielded nothing usable
                if rec.before.identity.renew().is_some() {
                    self.failed_renew = true;
                }
            }
        }
        if (d.processed && unrefutable) && rec.res.is_ok() && !was_defunct && !self_down {
            ensure!(
                !rejoined.is_empty() || defunct_note,
                "C10:unrefutable-suspicion-ignored",
                "suspicion at the maximum incarnation cannot be refuted, yet the instance neither renewed nor became Defunct"
            );
        }
        // connection bookkeeping
        if defunct_note {
            self.defunct = true;
        }
        if !rejoined.is_empty() && !ns.iter().rev().take_while(|n| !matches!(n, N::Rejoin(_))).any(|n| matches!(n, N::Defunct)) {
            self.defunct = false;
        }
        if (matches!(rec.call, Call::ChangeIdentity(_)) || reused) && rec.res.is_ok() {
            self.defunct = false;
        }
        ensure!(
            self.defunct == (rec.after.conn() == 2),
            "C10:defunct-tracking",
            "harness lost track of the Defunct state (notifications say {}, instance says {})",
            self.defunct,
            rec.after.conn()
        );
        Ok(())
    }

    fn finish(&mut self, out: &mut CaseOut) {
        out.sub_evaluations += self.calls;
        out.class_n("refutations", self.refutations as u64);
        out.class_n("stale_suspicions_ignored", self.stale_suspicions as u64);
        if self.max_boundary {
            out.class("max_incarnation_boundary");
        }
        if self.failed_renew {
            out.class("failed_renew");
        }
        let a = self.refutations > 0 && self.sends_after_refutation > 0;
        if a {
            out.class("refutation_then_send");
        }
        if a || self.max_boundary || self.failed_renew {
            out.nontrivial((self.refutations.min(6), self.sends_after_refutation.min(6), self.max_boundary, self.failed_renew, self.trace.len().min(8)));
        }
    }
}

fn part() -> HistPart<Mon, impl Fn(&Setup) -> Mon + Sync> {
    let mut p = Profile::default();
    p.self_updates = 12;
    p.weird_renew = true;
    p.max_len = 100;
    p.api_sends = 8;
    let mut sp = SetupProfile::default();
    sp.weird_renew = true;
    sp.codecs = vec![CodecKind::Fix, CodecKind::Var];
    HistPart { name: "histories", sp, p, cases_quick: 120_000, cases_thorough: 3_000_000, mk: |s: &Setup| Mon::new(s.codec) }
}

pub fn run(ctx: &Ctx, report: &mut Report) -> EvidenceMeta {
    ctx.run_part(&part(), report);
    EvidenceMeta {
        level: "exploration",
        rule: "proptest random single-instance histories biased to updates about the instance itself (Suspect/Down/Alive at incarnations lower/equal/higher/MAX-1/MAX through update sections, apply_many and TurnUndead), identities that renew / do not / renew to the same or a losing identity, interleaved with sends of every kind, change_identity, reuse_down_identity, leave_cluster. Oracle: own incarnation (hook snapshot at call boundaries + every outgoing header) never decreases within an identity, grows only by the statement's rule max(own,suspected)+1 for suspicions >= own, equals that value when the suspicion was processed; every outgoing member entry about another identity carries an incarnation <= the highest ever input for it; every Rejoin inside a call has its own cause (Down / TurnUndead / suspicion at MAX not below the own incarnation, about the identity held at that moment; later entries of the same batch about the superseded identity are no cause) and the identity the call ends with carries exactly the incarnation justified by suspicions about itself; a processed Down/TurnUndead about the current identity ends in Rejoin(winning, different identity, Down(old) queued and gossiped/pending) or Defunct; a Defunct instance neither raises its incarnation nor sends anything but TurnUndead replies on its own. Non-trivial: a refutation followed by a later send, a MAX-boundary event, or a failed renew."
            .into(),
        assumptions: vec![
            "own incarnation at call boundaries is read through the verif-hooks snapshot and cross-checked against every outgoing header".into(),
            "datagram acceptance is decided structurally (DESIGN 3.1a), not by result.is_ok()".into(),
        ],
    }
}

pub fn replay(part_name: &str, case: &Value) -> Option<Result<(), Fail>> {
    match part_name {
        "histories" => Some(replay_with(&part(), case)),
        _ => None,
    }
}
