//! C20 — Bundled codecs round-trip exactly and fail cleanly.
use crate::engine::*;
use crate::ensure;
use bytes::BufMut;
use foca::{BincodeCodec, Codec, Header, Member, Message, PostcardCodec, State};
use proptest::prelude::*;
use serde::{de::DeserializeOwned, Deserialize, Serialize};
use serde_json::{json, Value};
use std::net::SocketAddr;
use std::panic::{catch_unwind, AssertUnwindSafe};

#[derive(Clone, Debug, PartialEq, Eq, Serialize, Deserialize)]
pub struct SerdeId {
    pub addr: String,
    pub gen: u64,
}

#[derive(Clone, Copy, Debug, PartialEq, Eq, Serialize, Deserialize, Hash)]
pub enum Cdc {
    Postcard,
    BincodeStd,
    BincodeLegacy,
    BincodeStdLimit,
    BincodeLegacyLimit,
}
pub const CODECS: [Cdc; 5] = [Cdc::Postcard, Cdc::BincodeStd, Cdc::BincodeLegacy, Cdc::BincodeStdLimit, Cdc::BincodeLegacyLimit];

impl Cdc {
    fn unlimited_bincode(&self) -> bool {
        matches!(self, Cdc::BincodeStd | Cdc::BincodeLegacy)
    }
}

/// Message shape independent of the identity type (serialisable = replay format).
#[derive(Clone, Debug, Serialize, Deserialize)]
pub enum Msg {
    Ping(u8),
    Ack(u8),
    PingReq(u8),
    IndirectPing(u8),
    IndirectAck(u8),
    ForwardedAck(u8),
    Announce,
    Feed,
    Gossip,
    Broadcast,
    TurnUndead,
}

#[derive(Clone, Debug, Serialize, Deserialize)]
pub enum IdKind {
    U64,
    Pair,
    Sock,
    Serde,
}

/// Raw material for identities; each identity type picks what it needs.
#[derive(Clone, Debug, Serialize, Deserialize)]
pub struct IdSeed {
    pub n: u64,
    pub s: String,
    pub v6: bool,
}

#[derive(Clone, Debug, Serialize, Deserialize)]
pub struct CodecCase {
    pub codec: Cdc,
    pub id_kind: IdKind,
    pub src: IdSeed,
    pub dst: IdSeed,
    pub third: IdSeed,
    pub inc: u16,
    pub msg: Msg,
    pub state: u8,
    pub trailing: Vec<u8>,
    /// (position raw, xor) bit flips applied to the encoding
    pub flips: Vec<(u16, u8)>,
    pub random: Vec<u8>,
}

trait MkId: Sized + Clone + PartialEq + std::fmt::Debug + Serialize + DeserializeOwned {
    fn mk(s: &IdSeed) -> Self;
    const HEAP: bool;
}
impl MkId for u64 {
    fn mk(s: &IdSeed) -> Self {
        s.n
    }
    const HEAP: bool = false;
}
impl MkId for (u16, u16) {
    fn mk(s: &IdSeed) -> Self {
        (s.n as u16, (s.n >> 16) as u16)
    }
    const HEAP: bool = false;
}
impl MkId for SocketAddr {
    fn mk(s: &IdSeed) -> Self {
        let port = (s.n >> 32) as u16;
        if s.v6 {
            let b = (s.n as u128) * 0x1_0000_0001_0000_0001u128;
            SocketAddr::new(std::net::IpAddr::V6(std::net::Ipv6Addr::from(b)), port)
        } else {
            SocketAddr::new(std::net::IpAddr::V4(std::net::Ipv4Addr::from(s.n as u32)), port)
        }
    }
    const HEAP: bool = false;
}
impl MkId for SerdeId {
    fn mk(s: &IdSeed) -> Self {
        SerdeId { addr: s.s.clone(), gen: s.n }
    }
    const HEAP: bool = true;
}

fn mk_msg<T: MkId>(m: &Msg, third: &IdSeed) -> Message<T> {
    match m {
        Msg::Ping(n) => Message::Ping(*n),
        Msg::Ack(n) => Message::Ack(*n),
        Msg::PingReq(n) => Message::PingReq { target: T::mk(third), probe_number: *n },
        Msg::IndirectPing(n) => Message::IndirectPing { origin: T::mk(third), probe_number: *n },
        Msg::IndirectAck(n) => Message::IndirectAck { target: T::mk(third), probe_number: *n },
        Msg::ForwardedAck(n) => Message::ForwardedAck { origin: T::mk(third), probe_number: *n },
        Msg::Announce => Message::Announce,
        Msg::Feed => Message::Feed,
        Msg::Gossip => Message::Gossip,
        Msg::Broadcast => Message::Broadcast,
        Msg::TurnUndead => Message::TurnUndead,
    }
}

#[derive(Default)]
struct Tally {
    short_buffers: u64,
    truncations: u64,
    hostile: u64,
    hostile_decoded: u64,
    skipped_unlimited_heap: u64,
}

enum Item<T> {
    H(Header<T>),
    M(Member<T>),
}

fn enc<T, C: Codec<T>>(c: &mut C, it: &Item<T>, b: impl BufMut) -> Result<(), String> {
    match it {
        Item::H(h) => c.encode_header(h, b).map_err(|e| e.to_string()),
        Item::M(m) => c.encode_member(m, b).map_err(|e| e.to_string()),
    }
}
fn dec<T, C: Codec<T>>(c: &mut C, header: bool, cur: &mut &[u8]) -> Result<Item<T>, String> {
    if header {
        c.decode_header(cur).map(Item::H).map_err(|e| e.to_string())
    } else {
        c.decode_member(cur).map(Item::M).map_err(|e| e.to_string())
    }
}
fn same<T: PartialEq>(a: &Item<T>, b: &Item<T>) -> bool {
    match (a, b) {
        (Item::H(x), Item::H(y)) => x == y,
        (Item::M(x), Item::M(y)) => x == y,
        _ => false,
    }
}
fn show<T: std::fmt::Debug>(a: &Item<T>) -> String {
    match a {
        Item::H(x) => format!("{:?}", x),
        Item::M(x) => format!("{:?}", x),
    }
}

fn check_item<T: MkId, C: Codec<T>>(c: &mut C, it: &Item<T>, case: &CodecCase, hostile_ok: bool, t: &mut Tally) -> Result<(), Fail> {
    let is_header = matches!(it, Item::H(_));
    let what = if is_header { "header" } else { "member" };
    // 1. exact round trip, exact consumption, with trailing data
    let mut bytes = Vec::new();
    enc(c, it, &mut bytes).map_err(|e| Fail::new("C20:encode-into-vec-failed", format!("{what} {} does not encode into an unbounded buffer: {e}", show(it))))?;
    let n = bytes.len();
    let mut with_tail = bytes.clone();
    with_tail.extend_from_slice(&case.trailing);
    let mut cur: &[u8] = &with_tail;
    let back = dec::<T, C>(c, is_header, &mut cur).map_err(|e| Fail::new("C20:roundtrip-decode-failed", format!("{what} {} encodes to {} bytes that do not decode: {e}", show(it), n)))?;
    ensure!(same(&back, it), "C20:roundtrip-not-equal", "{what} {} decodes back as {}", show(it), show(&back));
    ensure!(
        cur.len() == case.trailing.len(),
        "C20:consumption-not-exact",
        "decoding a {what} of {} bytes followed by {} trailing bytes left {} bytes unread (must consume exactly what encode produced)",
        n,
        case.trailing.len(),
        cur.len()
    );
    // 2. every short buffer: error, no panic; the exact size works
    for k in 0..=n {
        let mut fixed = vec![0u8; k];
        let r1 = enc(c, it, &mut fixed[..]);
        let r2 = enc(c, it, Vec::with_capacity(k).limit(k));
        t.short_buffers += 2;
        if k < n {
            ensure!(r1.is_err(), "C20:short-buffer-accepted", "encoding a {what} of {n} bytes into a {k}-byte slice succeeded");
            ensure!(r2.is_err(), "C20:short-buffer-accepted", "encoding a {what} of {n} bytes into a Vec limited to {k} bytes succeeded");
        } else {
            ensure!(r1.is_ok() && fixed == bytes, "C20:exact-buffer-rejected", "encoding a {what} of {n} bytes into an exactly fitting slice failed or differs: {:?}", r1);
            ensure!(r2.is_ok(), "C20:exact-buffer-rejected", "encoding a {what} of {n} bytes into a Vec limited to {n} failed: {:?}", r2);
        }
    }
    // 3. every truncation
    for k in 0..n {
        let mut cur: &[u8] = &bytes[..k];
        let r = dec::<T, C>(c, is_header, &mut cur);
        t.truncations += 1;
        ensure!(cur.len() <= k, "C20:read-past-input", "decoding a {k}-byte truncation left {} bytes", cur.len());
        if let Ok(v) = r {
            // a prefix that happens to decode must be a fixed point
            reencode(c, &v, is_header)?;
        }
    }
    // 4. bit flips and random bytes (not for the unlimited-bincode x heap-identity combination: finding D9)
    if !hostile_ok {
        t.skipped_unlimited_heap += 1;
        return Ok(());
    }
    let mut flipped = bytes.clone();
    for (p, x) in &case.flips {
        if !flipped.is_empty() {
            let i = ((*p as usize) * flipped.len()) >> 16;
            flipped[i] ^= *x | 1;
        }
    }
    for input in [&flipped, &case.random] {
        let mut cur: &[u8] = input;
        let before = cur.len();
        let r = dec::<T, C>(c, is_header, &mut cur);
        t.hostile += 1;
        ensure!(cur.len() <= before, "C20:read-past-input", "decoding {before} hostile bytes left {} bytes", cur.len());
        if let Ok(v) = r {
            t.hostile_decoded += 1;
            reencode(c, &v, is_header)?;
        }
    }
    Ok(())
}

fn reencode<T: MkId, C: Codec<T>>(c: &mut C, v: &Item<T>, is_header: bool) -> Result<(), Fail> {
    let mut b = Vec::new();
    enc(c, v, &mut b).map_err(|e| Fail::new("C20:decoded-value-does-not-encode", format!("value {} decoded from bytes does not encode: {e}", show(v))))?;
    let mut cur: &[u8] = &b;
    let again = dec::<T, C>(c, is_header, &mut cur).map_err(|e| Fail::new("C20:reencode-not-stable", format!("re-encoding {} gives bytes that do not decode: {e}", show(v))))?;
    ensure!(same(&again, v) && cur.is_empty(), "C20:reencode-not-stable", "{} re-encodes to something that decodes as {}", show(v), show(&again));
    Ok(())
}

fn run_for<T: MkId, C: Codec<T>>(c: &mut C, case: &CodecCase, t: &mut Tally) -> Result<(), Fail> {
    let hostile_ok = !(case.codec.unlimited_bincode() && T::HEAP);
    let h = Header { src: T::mk(&case.src), src_incarnation: case.inc, dst: T::mk(&case.dst), message: mk_msg::<T>(&case.msg, &case.third) };
    let m = Member::new(
        T::mk(&case.src),
        case.inc,
        match case.state % 3 {
            0 => State::Alive,
            1 => State::Suspect,
            _ => State::Down,
        },
    );
    check_item(c, &Item::H(h), case, hostile_ok, t)?;
    check_item(c, &Item::M(m), case, hostile_ok, t)
}

fn dispatch_codec<T: MkId>(case: &CodecCase, t: &mut Tally) -> Result<(), Fail> {
    match case.codec {
        Cdc::Postcard => run_for::<T, _>(&mut PostcardCodec, case, t),
        Cdc::BincodeStd => run_for::<T, _>(&mut BincodeCodec(bincode::config::standard()), case, t),
        Cdc::BincodeLegacy => run_for::<T, _>(&mut BincodeCodec(bincode::config::legacy()), case, t),
        Cdc::BincodeStdLimit => run_for::<T, _>(&mut BincodeCodec(bincode::config::standard().with_limit::<65536>()), case, t),
        Cdc::BincodeLegacyLimit => run_for::<T, _>(&mut BincodeCodec(bincode::config::legacy().with_limit::<65536>()), case, t),
    }
}

pub fn exec(case: &CodecCase, out: &mut CaseOut) -> Result<(), Fail> {
    let mut t = Tally::default();
    let r = catch_unwind(AssertUnwindSafe(|| match case.id_kind {
        IdKind::U64 => dispatch_codec::<u64>(case, &mut t),
        IdKind::Pair => dispatch_codec::<(u16, u16)>(case, &mut t),
        IdKind::Sock => dispatch_codec::<SocketAddr>(case, &mut t),
        IdKind::Serde => dispatch_codec::<SerdeId>(case, &mut t),
    }));
    match r {
        Ok(r) => r?,
        Err(_) => return Err(Fail::new("C20:codec-panicked", format!("bundled codec {:?} panicked: {}", case.codec, crate::inst::take_last_panic()))),
    }
    out.sub_evaluations += t.short_buffers + t.truncations + t.hostile;
    out.class_n("short_buffer_encodes", t.short_buffers);
    out.class_n("truncated_decodes", t.truncations);
    out.class_n("hostile_inputs", t.hostile);
    out.class_n("hostile_inputs_that_decoded", t.hostile_decoded);
    out.class_n("hostile_part_skipped_(unlimited_bincode_x_heap_identity)", t.skipped_unlimited_heap);
    let variable = matches!(case.id_kind, IdKind::Serde);
    if variable && (!case.trailing.is_empty()) {
        let size = case.src.s.len().min(300) / 20;
        out.nontrivial((case.codec, std::mem::discriminant(&case.msg), size, case.trailing.len().min(4)));
    }
    if out.want_sample {
        out.sample = Some(json!(case));
    }
    Ok(())
}

fn id_seed() -> BoxedStrategy<IdSeed> {
    let s = prop_oneof![
        3 => "[a-z0-9.:-]{0,24}",
        2 => "\\PC{0,60}",
        1 => "[ -~]{100,300}",
        1 => Just(String::new()),
    ];
    (prop_oneof![4 => any::<u64>(), 1 => Just(0u64), 1 => Just(u64::MAX), 1 => 0..300u64], s, any::<bool>()).prop_map(|(n, s, v6)| IdSeed { n, s, v6 }).boxed()
}

fn codec_case() -> BoxedStrategy<CodecCase> {
    let no = prop_oneof![Just(0u8), Just(1), Just(u8::MAX), any::<u8>()];
    let msg = prop_oneof![
        no.clone().prop_map(Msg::Ping),
        no.clone().prop_map(Msg::Ack),
        no.clone().prop_map(Msg::PingReq),
        no.clone().prop_map(Msg::IndirectPing),
        no.clone().prop_map(Msg::IndirectAck),
        no.prop_map(Msg::ForwardedAck),
        Just(Msg::Announce),
        Just(Msg::Feed),
        Just(Msg::Gossip),
        Just(Msg::Broadcast),
        Just(Msg::TurnUndead),
    ];
    (
        (proptest::sample::select(CODECS.to_vec()), prop_oneof![1 => Just(IdKind::U64), 1 => Just(IdKind::Pair), 1 => Just(IdKind::Sock), 3 => Just(IdKind::Serde)]),
        (id_seed(), id_seed(), id_seed()),
        prop_oneof![Just(0u16), Just(1), Just(u16::MAX), Just(u16::MAX - 1), any::<u16>()],
        msg,
        0..3u8,
        proptest::collection::vec(any::<u8>(), 0..65),
        proptest::collection::vec((any::<u16>(), any::<u8>()), 1..4),
        proptest::collection::vec(any::<u8>(), 0..48),
    )
        .prop_map(|((codec, id_kind), (src, dst, third), inc, msg, state, trailing, flips, random)| CodecCase { codec, id_kind, src, dst, third, inc, msg, state, trailing, flips, random })
        .boxed()
}

pub struct CodecPart;
impl Part for CodecPart {
    type Case = CodecCase;
    fn name(&self) -> &'static str {
        "values"
    }
    fn strategy(&self, _t: Tier) -> BoxedStrategy<CodecCase> {
        codec_case()
    }
    fn cases(&self, tier: Tier) -> u64 {
        tier.pick(200_000, 4_000_000)
    }
    fn exec(&self, c: &CodecCase, out: &mut CaseOut) -> Result<(), Fail> {
        exec(c, out)
    }
}

// ---------------------------------------------------------------------------------------
// Finding D9: unlimited bincode configuration x heap-carrying identity x hostile length prefix.
// It aborts the process (allocation failure), so it is only ever executed in a child process.
// ---------------------------------------------------------------------------------------

#[derive(Clone, Debug, Serialize, Deserialize)]
pub struct HostileCase {
    pub legacy: bool,
    pub bytes: Vec<u8>,
}

fn hostile_inner(c: &HostileCase) {
    let mut cur: &[u8] = &c.bytes;
    if c.legacy {
        let _ = Codec::<SerdeId>::decode_member(&mut BincodeCodec(bincode::config::legacy()), &mut cur);
    } else {
        let _ = Codec::<SerdeId>::decode_member(&mut BincodeCodec(bincode::config::standard()), &mut cur);
    }
}

pub fn exec_hostile(c: &HostileCase) -> Result<(), Fail> {
    if std::env::var("VERIF_C20_INNER").is_ok() {
        hostile_inner(c);
        return Ok(());
    }
    let dir = verif_root().join("target");
    let _ = std::fs::create_dir_all(&dir);
    let path = dir.join(format!("c20-hostile-{}.json", std::process::id()));
    let rf = ReplayFile { property: "C20".into(), part: "unlimited-bincode-hostile-bytes".into(), signature: String::new(), message: String::new(), case: serde_json::to_value(c).unwrap() };
    std::fs::write(&path, serde_json::to_string(&rf).unwrap()).map_err(|e| Fail::new("infra", e.to_string()))?;
    let exe = std::env::current_exe().map_err(|e| Fail::new("infra", e.to_string()))?;
    let o = std::process::Command::new(exe).args(["C20", "--replay", path.to_str().unwrap()]).env("VERIF_C20_INNER", "1").output();
    let _ = std::fs::remove_file(&path);
    let o = o.map_err(|e| Fail::new("infra", e.to_string()))?;
    if o.status.success() {
        return Ok(());
    }
    let err = String::from_utf8_lossy(&o.stderr).to_string();
    use std::os::unix::process::ExitStatusExt;
    if o.status.signal() == Some(6) && err.contains("memory allocation of") {
        return Err(Fail::new(
            "C20:bincode-unlimited-length-prefix",
            format!("BincodeCodec with an unlimited configuration decoding a member whose identity holds a String: {} hostile bytes make bincode allocate the declared length up front and the process aborts: {}", c.bytes.len(), err.lines().next().unwrap_or("")),
        ));
    }
    Err(Fail::new("C20:child-died", format!("child process ended with {:?}: {}", o.status, err)))
}

pub fn run(ctx: &Ctx, report: &mut Report) -> EvidenceMeta {
    ctx.replay_corpus("codec_bytes", report);
    if ctx.tier == Tier::Thorough {
        ctx.fuzz_campaign("codec_bytes", 50_000_000, 160, report);
    }
    ctx.run_part(&CodecPart, report);
    // Foca on the serde codecs at packet sizes that cut a Feed / update list mid-member (C07's sweep)
    let sweep: Vec<crate::props::c07::SweepCase> = {
        let mut v = Vec::new();
        for codec in [crate::codec::CodecKind::Postcard, crate::codec::CodecKind::Bincode] {
            for max_packet in 4..=ctx.tier.pick(160u32, 400u32) {
                for spread in [false, true] {
                    v.push(crate::props::c07::SweepCase { codec, max_packet, members: 40, updates: 40, item_sizes: vec![3, 9, 1], max_tx: 2, spread });
                }
            }
        }
        v
    };
    ctx.run_enum("foca-on-serde-codecs-packet-sweep", sweep.len() as u64, |i| sweep[i as usize].clone(), crate::props::c07::exec_sweep, report, false);
    EvidenceMeta {
        level: "exploration",
        rule: "proptest values for PostcardCodec and BincodeCodec with standard() / legacy() (no decode limit) and the same with_limit::<65536>(), identity types u64, (u16,u16), SocketAddr (v4/v6) and a serde struct holding a String (0..300 bytes incl. multi-byte UTF-8); every Message variant, incarnations and probe numbers at 0, 1, MAX and random. Per value (header and member): decode(encode(v)) == v and exactly the produced bytes are consumed with 0..64 trailing bytes behind; encoding into every buffer size 0..len-1 (both &mut [u8] and Limit<Vec<u8>> as Foca uses) is an error, never a panic, and the exact size works; decoding every truncation, bit-flipped encodings and random bytes returns a value or an error without panic and never leaves more bytes than it was given; a value decoded from hostile bytes re-encodes to a fixed point. The combination unlimited bincode config x String-carrying identity x hostile bytes is excluded from generation (counted) because of the listed finding: it aborts the process and is only exercised through its committed replay in a child process. Plus Foca itself on the two serde codecs with the packet size swept byte by byte so that Feeds and update lists are cut mid-member (C07's oracle), once with uniform members and once with addresses / generations / incarnations spread over 1-, 2- and 3-byte varints so that members have different encoded sizes and fail to fit at different fields. Non-trivial: a value with a variable-length identity and trailing data; distinct = (codec config, message variant, string size class, trailing size class)."
            .into(),
        assumptions: vec!["serde derive output of the identity types is trusted; allocation failure inside bincode is the listed known finding, isolated in a child process".into()],
    }
}

pub fn replay(part_name: &str, case: &Value) -> Option<Result<(), Fail>> {
    match part_name {
        p if p.starts_with("fuzz:") => replay_fuzz(p, case),
        "values" => Some(replay_with(&CodecPart, case)),
        "unlimited-bincode-hostile-bytes" => Some((|| {
            let c: HostileCase = serde_json::from_value(case.clone()).map_err(|e| Fail::new("replay:bad-file", e.to_string()))?;
            exec_hostile(&c)
        })()),
        "foca-on-serde-codecs-packet-sweep" => Some((|| {
            let c: crate::props::c07::SweepCase = serde_json::from_value(case.clone()).map_err(|e| Fail::new("replay:bad-file", e.to_string()))?;
            crate::props::c07::exec_sweep(&c, &mut CaseOut::default())
        })()),
        _ => None,
    }
}

// ---------------------------------------------------------------------------------------
// byte-level entry point for the libFuzzer target
// ---------------------------------------------------------------------------------------

fn fuzz_one<T: MkId, C: Codec<T>>(c: &mut C, data: &[u8]) -> Result<(), Fail> {
    for is_header in [true, false] {
        let mut cur: &[u8] = data;
        let r = dec::<T, C>(c, is_header, &mut cur);
        ensure!(cur.len() <= data.len(), "C20:read-past-input", "decoder left {} bytes of a {}-byte input", cur.len(), data.len());
        if let Ok(v) = r {
            reencode(c, &v, is_header)?;
        }
    }
    Ok(())
}

pub fn fuzz_decode(selector: u8, data: &[u8]) -> Result<(), Fail> {
    let r = catch_unwind(AssertUnwindSafe(|| {
        let id = selector & 3;
        macro_rules! with_codec {
            ($t:ty, $heap:expr) => {
                match (selector >> 2) % 5 {
                    0 => fuzz_one::<$t, _>(&mut PostcardCodec, data),
                    1 => fuzz_one::<$t, _>(&mut BincodeCodec(bincode::config::standard().with_limit::<65536>()), data),
                    2 => fuzz_one::<$t, _>(&mut BincodeCodec(bincode::config::legacy().with_limit::<65536>()), data),
                    3 if !$heap => fuzz_one::<$t, _>(&mut BincodeCodec(bincode::config::standard()), data),
                    4 if !$heap => fuzz_one::<$t, _>(&mut BincodeCodec(bincode::config::legacy()), data),
                    _ => Ok(()),
                }
            };
        }
        match id {
            0 => with_codec!(u64, false),
            1 => with_codec!((u16, u16), false),
            2 => with_codec!(SocketAddr, false),
            _ => with_codec!(SerdeId, true),
        }
    }));
    match r {
        Ok(r) => r,
        Err(_) => Err(Fail::new("C20:codec-panicked", format!("bundled codec panicked on {} bytes: {}", data.len(), crate::inst::take_last_panic()))),
    }
}
