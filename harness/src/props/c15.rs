//! C15 — Dissemination accounting: updates gossiped at most max_transmissions times.
use crate::codec::{AnyCodec, CodecKind};
use crate::engine::*;
use crate::ensure;
use crate::hist::*;
use crate::ident::*;
use crate::inst::*;
use crate::ops::*;
use crate::rt::Ev;
use crate::wire::{self, kind_name, piggybacks};
use foca::verif::Event as HookEv;
use foca::{Member, Message, State};
use serde_json::Value;
use std::collections::BTreeMap;

#[derive(Clone, Debug)]
struct Entry {
    bytes: Vec<u8>,
    remaining: usize,
    max: usize,
}

pub struct Mon {
    codec: CodecKind,
    acct: BTreeMap<u16, Entry>,
    max_tx: usize,
    max_packet: usize,
    omitted_datagrams: u64,
    replaced_midway: u64,
    datagrams: u64,
    fully_transmitted: u64,
    nontrivial: Vec<u64>,
    calls: u64,
}

impl Mon {
    pub fn new(s: &Setup) -> Self {
        Mon {
            codec: s.codec,
            acct: BTreeMap::new(),
            max_tx: s.cfg.max_tx as usize,
            max_packet: s.cfg.max_packet as usize,
            omitted_datagrams: 0,
            replaced_midway: 0,
            datagrams: 0,
            fully_transmitted: 0,
            nontrivial: Vec::new(),
            calls: 0,
        }
    }
}

fn decode_member(codec: CodecKind, b: &[u8]) -> Option<Member<Id>> {
    let mut cur: &[u8] = b;
    let m = foca::Codec::decode_member(&mut AnyCodec(codec), &mut cur).ok()?;
    if cur.is_empty() {
        Some(m)
    } else {
        None
    }
}

impl Monitor for Mon {
    fn on_call(&mut self, rec: &CallRec, _o: &Origin, runner: &Runner) -> Result<(), Fail> {
        self.calls += 1;
        let chain = identity_chain(rec);
        let sends: Vec<(&Id, &Vec<u8>)> = rec.evs.iter().filter_map(|e| if let Ev::Send { to, bytes } = e { Some((to, bytes)) } else { None }).collect();
        let n_sent_hook = rec.hook.iter().filter(|e| matches!(e, HookEv::Sent)).count();
        ensure!(n_sent_hook == sends.len(), "C15:hook-mismatch", "hook recorded {} sends, runtime saw {}", n_sent_hook, sends.len());
        let mut k = 0usize;
        for ev in &rec.hook {
            match ev {
                HookEv::UpdateQueued(b) => {
                    let Some(m) = decode_member(self.codec, b) else {
                        return Err(Fail::new("C15:queued-update-undecodable", format!("an update queued for dissemination does not decode: {}", wire::hex(b))));
                    };
                    // applying with broadcasting disabled must not enqueue anything (other than the
                    // instance's own Down(previous identity) when it renews)
                    if let Call::ApplyMany(_, false) = &rec.call {
                        let own_renewal = chain.contains(m.id()) && m.state() == State::Down;
                        ensure!(own_renewal, "C15:enqueued-with-broadcast-disabled", "apply_many(.., do_broadcast=false, ..) queued {:?} for dissemination", m);
                    }
                    // an instance that is Defunct (it left, or was declared down) already had its identity's
                    // death accepted for dissemination - by itself when leaving, by its peers otherwise;
                    // moving on to another identity must not give that same change a second full budget
                    if let (Call::ChangeIdentity(_), 2) = (&rec.call, rec.before.conn()) {
                        ensure!(
                            !(m.state() == State::Down && *m.id() == rec.before.identity),
                            "C15:dead-identity-declared-down-again",
                            "change_identity on a Defunct instance queued {:?} again with a fresh budget of {} transmissions",
                            m,
                            self.max_tx
                        );
                    }
                    if let Some(old) = self.acct.get(&m.id().addr) {
                        if old.remaining > 0 && old.remaining < old.max {
                            self.replaced_midway += 1;
                            self.nontrivial.push(hash_of(&("replaced", old.remaining.min(6), old.max.min(12))));
                        }
                    }
                    self.acct.insert(m.id().addr, Entry { bytes: b.clone(), remaining: self.max_tx, max: self.max_tx });
                }
                HookEv::CustomQueued(_) => {}
                HookEv::Sent => {
                    let (to, bytes) = sends[k];
                    k += 1;
                    self.datagrams += 1;
                    let d = wire::parse(bytes, self.codec)
                        .map_err(|e| Fail::new("C15:unparseable-send", format!("emitted datagram does not parse: {e}")))?;
                    let kind = kind_name(&d.header.message);
                    let consumes = piggybacks(&d.header.message) && d.header.message != Message::Feed;
                    if !consumes {
                        // Feed, Announce, TurnUndead, Broadcast consume nothing: the accountant is left alone.
                        continue;
                    }
                    let Some(_) = &d.members else {
                        continue; // no room for a member section at all
                    };
                    let before: BTreeMap<u16, Entry> = self.acct.clone();
                    let mut included: Vec<u16> = Vec::new();
                    for mb in &d.member_bytes {
                        let hit = self.acct.iter().find(|(a, e)| e.bytes == *mb && !included.contains(a)).map(|(a, _)| *a);
                        let Some(addr) = hit else {
                            return Err(Fail::new(
                                "C15:transmitted-update-not-pending",
                                format!(
                                    "{kind} to {to} carries update {:?} which is not a pending backlog entry (already fully transmitted, superseded, never accepted, or sent twice in one datagram); backlog: {:?}",
                                    decode_member(self.codec, mb),
                                    self.acct.values().map(|e| (decode_member(self.codec, &e.bytes), e.remaining)).collect::<Vec<_>>()
                                ),
                            ));
                        };
                        included.push(addr);
                        let e = self.acct.get_mut(&addr).unwrap();
                        e.remaining -= 1;
                        if e.remaining == 0 {
                            self.acct.remove(&addr);
                            self.fully_transmitted += 1;
                        }
                    }
                    // omission rule: what was left out did not fit when its turn came
                    let limit = self.max_packet;
                    let free_after_updates = limit.saturating_sub(d.members_end);
                    let mut omitted_any = false;
                    for (addr, e) in &before {
                        if included.contains(addr) {
                            continue;
                        }
                        omitted_any = true;
                        let later: usize = included
                            .iter()
                            .filter(|a| before[*a].remaining < e.remaining)
                            .map(|a| before[a].bytes.len())
                            .sum();
                        ensure!(
                            e.bytes.len() > free_after_updates + later,
                            "C15:omitted-update-would-fit",
                            "{kind} to {to} omits pending update {:?} ({} bytes, {} transmissions left) although {} bytes were free after the member section and {} more bytes went to updates with fewer transmissions left; datagram {}",
                            decode_member(self.codec, &e.bytes),
                            e.bytes.len(),
                            e.remaining,
                            free_after_updates,
                            later,
                            wire::render(bytes, self.codec)
                        );
                    }
                    if omitted_any {
                        self.omitted_datagrams += 1;
                        self.nontrivial.push(hash_of(&("omitted", kind, included.len().min(10), (before.len() - included.len()).min(10), self.max_tx.min(12))));
                    }
                }
            }
        }
        // the limit that applies to the *next* call
        self.max_tx = runner.inst.cfg.max_tx as usize;
        self.max_packet = runner.inst.cfg.max_packet as usize;
        // backlog size and contents
        ensure!(
            rec.after.updates_backlog == self.acct.len(),
            "C15:backlog-size",
            "updates_backlog()={} but the accountant holds {} pending updates: {:?}",
            rec.after.updates_backlog,
            self.acct.len(),
            self.acct.values().map(|e| (decode_member(self.codec, &e.bytes), e.remaining)).collect::<Vec<_>>()
        );
        let mut real: Vec<(Vec<u8>, usize)> = rec.after.snap.updates.clone();
        let mut mine: Vec<(Vec<u8>, usize)> = self.acct.values().map(|e| (e.bytes.clone(), e.remaining)).collect();
        real.sort();
        mine.sort();
        ensure!(
            real == mine,
            "C15:backlog-contents",
            "the backlog's (update, transmissions left) entries differ from the accountant's:\n real {:?}\n acct {:?}",
            real.iter().map(|(b, r)| (decode_member(self.codec, b), *r)).collect::<Vec<_>>(),
            mine.iter().map(|(b, r)| (decode_member(self.codec, b), *r)).collect::<Vec<_>>()
        );
        if let Call::ApplyMany(_, false) = &rec.call {
            if chain.len() == 1 {
                ensure!(
                    rec.before.snap.updates == rec.after.snap.updates || rec.evs.iter().any(|e| matches!(e, Ev::Send { .. })),
                    "C15:backlog-touched-with-broadcast-disabled",
                    "apply_many(.., do_broadcast=false, ..) changed the backlog without sending anything"
                );
            }
        }
        Ok(())
    }

    fn finish(&mut self, out: &mut CaseOut) {
        out.sub_evaluations += self.datagrams;
        out.class_n("datagrams_accounted", self.datagrams);
        out.class_n("datagrams_omitting_a_pending_update", self.omitted_datagrams);
        out.class_n("updates_replaced_mid_dissemination", self.replaced_midway);
        out.class_n("updates_fully_transmitted", self.fully_transmitted);
        out.nontrivial.append(&mut self.nontrivial);
    }
}

fn part() -> HistPart<Mon, impl Fn(&Setup) -> Mon + Sync> {
    let mut p = Profile::default();
    p.n_addr = 7;
    p.api_sends = 10;
    p.timers_weight = 35;
    p.max_len = 110;
    p.packet_resize = false;
    // change_identity to a different address is legal API use and moves the instance's own backlog key
    p.change_addr = true;
    let mut sp = SetupProfile::default();
    sp.codecs = vec![CodecKind::Fix, CodecKind::Var, CodecKind::Postcard];
    sp.packet = vec![(18, 40), (40, 90), (90, 200), (1400, 1401)];
    sp.max_tx = (1, 12);
    HistPart { name: "histories", sp, p, cases_quick: 120_000, cases_thorough: 2_000_000, mk: |s: &Setup| Mon::new(s) }
}

fn part_long_tx() -> HistPart<Mon, impl Fn(&Setup) -> Mon + Sync> {
    let mut p = Profile::default();
    p.n_addr = 4;
    p.api_sends = 30;
    p.timers_weight = 30;
    p.max_len = 400;
    let mut sp = SetupProfile::default();
    sp.codecs = vec![CodecKind::Fix, CodecKind::Var];
    sp.packet = vec![(20, 60), (1400, 1401)];
    sp.max_tx = (200, 255);
    sp.handler = false;
    HistPart { name: "histories-max-transmissions-200-254", sp, p, cases_quick: 4_500, cases_thorough: 60_000, mk: |s: &Setup| Mon::new(s) }
}

pub fn run(ctx: &Ctx, report: &mut Report) -> EvidenceMeta {
    ctx.run_part(&part(), report);
    ctx.run_part(&part_long_tx(), report);
    EvidenceMeta {
        level: "exploration",
        rule: "proptest random single-instance histories (apply_many with do_broadcast true/false, datagrams with update sections, probe timers acked or not so that Suspect/Down updates are produced internally, leave_cluster, change_identity, renewals, set_config changing max_transmissions, emissions of every kind) with max_transmissions 1..11 and 200..254, packet sizes from 'one update barely fits' (18..40 bytes) to 1400, fixed-size (FixCodec), variable-size (VarCodec) and postcard updates. Oracle: an accountant {address -> (bytes, transmissions left)} driven by the hook's ordered log of accepted updates and sends: every member entry of a piggybacking datagram must be byte-identical to a distinct pending entry and costs it one transmission (removed at 0); every pending entry left out must not have fit when its turn came (len > free bytes after the member section + bytes of included entries with fewer transmissions left); Feed/Announce/TurnUndead/Broadcast leave the accountant alone; after every call updates_backlog() and the real (bytes, remaining) multiset equal the accountant's; apply_many with broadcasting disabled enqueues nothing; change_identity on a Defunct instance does not queue Down(previous identity) a second time. Non-trivial: a datagram that had to omit a pending update, or an update superseded while partly transmitted; distinct = (event, kind, #included, #omitted, max_transmissions)."
            .into(),
        assumptions: vec![
            "which updates Foca accepted for dissemination, and the per-entry transmissions left, are read through the verif-hooks event log / snapshot".into(),
            "ties between entries with equal transmissions left are unconstrained (the statement only orders by transmissions remaining)".into(),
        ],
    }
}

pub fn replay(part_name: &str, case: &Value) -> Option<Result<(), Fail>> {
    match part_name {
        "histories" => Some(replay_with(&part(), case)),
        "histories-max-transmissions-200-254" => Some(replay_with(&part_long_tx(), case)),
        _ => None,
    }
}
