//! C19 — Foca never chooses its own address as a destination.
use crate::codec::CodecKind;
use crate::engine::*;
use crate::hist::*;
use crate::inst::{Call, CallRec};
use crate::ops::{Origin, Profile, Runner, SetupProfile};
use crate::wire::kind_name;
use foca::Message;
use serde_json::Value;

pub struct Mon {
    codec: CodecKind,
    nontrivial: Vec<u64>,
    sends: u64,
    chooser_with_own_record: u64,
}

impl Monitor for Mon {
    fn on_call(&mut self, rec: &CallRec, _o: &Origin, _r: &Runner) -> Result<(), Fail> {
        let sent = sent_dgrams(rec, self.codec, "C19")?;
        // is this call a relay of a peer-named target? (outside the guarantee)
        let relay_in = match &rec.call {
            Call::Data(b) => crate::wire::parse(b, self.codec)
                .ok()
                .map(|d| matches!(d.header.message, Message::PingReq { .. } | Message::IndirectAck { .. }))
                .unwrap_or(false),
            _ => false,
        };
        let caller_chosen = matches!(rec.call, Call::Announce(_));
        let own_addr_records = rec.before.state.iter().filter(|m| m.id().addr == rec.before.identity.addr).count()
            + rec.after.state.iter().filter(|m| m.id().addr == rec.after.identity.addr).count();
        for s in &sent {
            self.sends += 1;
            let kind = kind_name(&s.dgram.header.message);
            let is_relay = relay_in && matches!(s.dgram.header.message, Message::IndirectPing { .. } | Message::ForwardedAck { .. });
            if is_relay || caller_chosen {
                continue;
            }
            if s.to.addr == s.identity.addr {
                let sig = match (&rec.call, &s.dgram.header.message) {
                    (Call::Timer(foca::Timer::PeriodicAnnounceDown(_)), Message::Announce) => "C19:announce-to-down-own-address",
                    _ => "C19:own-address-destination",
                };
                return Err(Fail::new(
                    sig,
                    format!(
                        "{} sent to {} while the instance's identity is {} (same address) during {}",
                        kind,
                        s.to,
                        s.identity,
                        rec.call.kind()
                    ),
                ));
            }
            if own_addr_records > 0 {
                self.chooser_with_own_record += 1;
                self.nontrivial.push(hash_of(&(rec.call.kind(), kind, own_addr_records.min(3), s.identity.gen.min(4))));
            }
        }
        Ok(())
    }
    fn finish(&mut self, out: &mut CaseOut) {
        out.sub_evaluations += self.sends;
        out.class_n("sends_checked", self.sends);
        out.class_n("sends_chosen_while_own_address_record_present", self.chooser_with_own_record);
        out.nontrivial.append(&mut self.nontrivial);
    }
}

fn part() -> HistPart<Mon, impl Fn(&crate::ops::Setup) -> Mon + Sync> {
    let mut p = Profile::default();
    p.old_timers = true;
    p.self_updates = 2;
    p.timers_weight = 40;
    p.max_len = 100;
    let mut sp = SetupProfile::default();
    sp.codecs = vec![CodecKind::Fix, CodecKind::Var];
    HistPart {
        name: "histories",
        sp,
        p,
        cases_quick: 90_000,
        cases_thorough: 2_000_000,
        mk: |s: &crate::ops::Setup| Mon { codec: s.codec, nontrivial: Vec::new(), sends: 0, chooser_with_own_record: 0 },
    }
}

/// The instance also moves onto addresses it knows Down (or not at all): the records of the previous
/// holder are then "older identities of its own address". Small packets and custom broadcasts make
/// selections end early (truncated Feed, drained broadcast), which is what leaves state behind in shared buffers.
fn part_takeover() -> HistPart<Mon, impl Fn(&crate::ops::Setup) -> Mon + Sync> {
    let mut p = Profile::default();
    p.old_timers = true;
    p.self_updates = 1;
    p.timers_weight = 25;
    p.api_sends = 25;
    p.n_addr = 5;
    p.max_len = 120;
    p.change_addr = true;
    p.takeover_inactive_only = true;
    let mut sp = SetupProfile::default();
    sp.codecs = vec![CodecKind::Fix, CodecKind::Var];
    sp.packet = vec![(30, 80), (1400, 1401)];
    HistPart {
        name: "histories-with-address-takeover",
        sp,
        p,
        cases_quick: 90_000,
        cases_thorough: 2_000_000,
        mk: |s: &crate::ops::Setup| Mon { codec: s.codec, nontrivial: Vec::new(), sends: 0, chooser_with_own_record: 0 },
    }
}

pub fn run(ctx: &Ctx, report: &mut Report) -> EvidenceMeta {
    ctx.run_part(&part(), report);
    ctx.run_part(&part_takeover(), report);
    EvidenceMeta {
        level: "exploration",
        rule: "proptest-generated single-instance histories (datagrams of every kind from foreign / own-address identities in several generations, update lists echoing the instance's own past identities, issued timers fired in any order and re-fired, renewals, change_identity on the own address, all periodic-task combinations; a second part adds change_identity onto other addresses - only ones the instance does not list as active, claiming a live member's address being outside the quantifier - with packets of 30..80 bytes so that Feeds are truncated and selections end early). Every send_to destination is compared with the identity held at the time of the send (identity chain of the call). A case element is non-trivial when a destination was chosen by Foca while its membership state held a record bearing its own address; distinct = (call kind, message kind, #own-address records, generation)."
            .into(),
        assumptions: vec![
            "harness identity: win_addr_conflict is a strict total order per address".into(),
            "IndirectPing/ForwardedAck emitted while handling PingReq/IndirectAck are relays towards a peer-named target (exempt by the statement); announce(dst) destinations are chosen by the caller".into(),
        ],
    }
}

pub fn replay(part_name: &str, case: &Value) -> Option<Result<(), Fail>> {
    match part_name {
        "histories" => Some(replay_with(&part(), case)),
        "histories-with-address-takeover" => Some(replay_with(&part_takeover(), case)),
        _ => None,
    }
}
