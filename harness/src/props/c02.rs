//! C02 — Fault-free cluster: full discovery and zero false suspicion.
use crate::cluster::*;
use crate::codec::CodecKind;
use crate::engine::*;
use crate::ident::Id;
use crate::ensure;
use crate::sim::*;
use foca::{OwnedNotification as N, State};
use proptest::prelude::*;
use serde::{Deserialize, Serialize};
use serde_json::{json, Value};

#[derive(Clone, Debug, Serialize, Deserialize)]
pub struct C02Case {
    pub spec: ClusterSpec,
    /// false: packet too small to feed the whole cluster, only the safety clause is judged
    pub judge_discovery: bool,
}

fn safety(sim: &Sim, info: &StepInfo) -> Result<(), Fail> {
    panic_or_err(sim, info, "C02", false)?;
    for n in &info.notes {
        ensure!(
            !matches!(n, N::MemberDown(_) | N::Idle | N::Defunct | N::Rejoin(_)),
            "C02:false-alarm-notification",
            "fault-free run: node{} notified {:?} at t={}us (handling {} {:?})\n{}",
            info.node,
            n,
            info.t,
            info.call_kind,
            info.delivered_kind,
            sim.describe()
        );
    }
    for m in sim.nodes[info.node].inst.foca.iter_membership_state() {
        ensure!(
            m.state() == State::Alive,
            "C02:false-suspicion",
            "fault-free run: node{} records live member {} as {:?} at t={}us (after {} {:?})\n{}",
            info.node,
            m.id(),
            m.state(),
            info.t,
            info.call_kind,
            info.delivered_kind,
            sim.describe()
        );
    }
    Ok(())
}

pub fn exec(case: &C02Case, out: &mut CaseOut) -> Result<(), Fail> {
    let spec = &case.spec;
    let n = spec.n as u64;
    let period = spec.period_us();
    // Besides the safety clause, every Feed is compared with what its sender knew when it sent it: a
    // member the sender listed as active, other than the receiver, that is missing although it would
    // still have fit. Not a violation by itself (no property demands maximal Feeds), but a stall that
    // follows one is not the listed finding, whose mechanism is concurrent joins with complete Feeds.
    let feed_gap: std::cell::RefCell<Option<String>> = std::cell::RefCell::new(None);
    let codec = spec.codec;
    let max_packet = spec.cfg.max_packet as usize;
    let mut step = |sim: &Sim, info: &StepInfo| -> Result<(), Fail> {
        safety(sim, info)?;
        for (to, bytes) in &info.sent_bytes {
            let Ok(d) = crate::wire::parse(bytes, codec) else { continue };
            if d.header.message != foca::Message::Feed || feed_gap.borrow().is_some() {
                continue;
            }
            let listed: Vec<Id> = d.members.iter().flatten().map(|m| *m.id()).collect();
            for m in sim.nodes[info.node].inst.foca.iter_members() {
                if m.id().addr == to.addr || listed.contains(m.id()) {
                    continue;
                }
                let mut enc = Vec::new();
                let _ = foca::Codec::encode_member(&mut crate::codec::AnyCodec(codec), m, &mut enc);
                if bytes.len() + enc.len() <= max_packet {
                    *feed_gap.borrow_mut() = Some(format!(
                        "t={}us node{} sent a Feed to {} listing {:?} but not {} which it lists as active ({} of {} bytes used, the entry needs {})",
                        info.t,
                        info.node,
                        to,
                        listed,
                        m.id(),
                        bytes.len(),
                        max_packet,
                        enc.len()
                    ));
                    break;
                }
            }
        }
        Ok(())
    };
    crate::cluster::KEEP_SENT.with(|k| k.set(true));
    let formed = form(spec, &mut step);
    crate::cluster::KEEP_SENT.with(|k| k.set(false));
    let (mut sim, t_done) = formed?;
    let deadline = t_done + (6 * n + 20) * period;
    let mut converged_at: Option<u64> = None;
    let mut t = t_done;
    while t < deadline {
        t += period / 2;
        sim.run_until(t, &mut step)?;
        if converged_at.is_none() && sim.fully_converged(true) {
            converged_at = Some(t);
        }
        if let Some(c) = converged_at {
            // keep running a while for the safety clause, then stop
            if t >= c + (2 * n + 4) * period {
                break;
            }
        }
    }
    let periods = |us: u64| (us + period - 1) / period;
    if case.judge_discovery {
        if converged_at.is_none() {
            // classify: the protocol's own quiescent state with periodic announce off is the listed finding
            let live = sim.live();
            let drained = live.iter().all(|i| sim.nodes[*i].inst.foca.updates_backlog() == 0);
            let in_flight = sim.updates_in_flight();
            let mut symmetric = true;
            for i in &live {
                for j in &live {
                    if i != j {
                        let a = sim.active_ids(*i).contains(&sim.identity(*j));
                        let b = sim.active_ids(*j).contains(&sim.identity(*i));
                        symmetric &= a == b;
                    }
                }
            }
            let stall = spec.cfg.periodic_announce.is_none() && drained && in_flight == 0 && symmetric;
            // second quiescent state: updates are pending but no probe message of this instance has room
            // for even one of them (packet = header + count + less than one update) and nothing else
            // (periodic gossip / announce) would carry them
            let no_room = spec.cfg.periodic_announce.is_none()
                && spec.cfg.periodic_gossip.is_none()
                && in_flight == 0
                && symmetric
                && !drained
                && live.iter().all(|i| {
                    let inst = &sim.nodes[*i].inst;
                    let me = *inst.foca.identity();
                    let snap = inst.foca.verif_snapshot();
                    snap.updates.iter().all(|(u, _)| {
                        inst.foca.iter_members().all(|m| {
                            let h = foca::Header { src: me, src_incarnation: 0, dst: *m.id(), message: foca::Message::Ping(0) };
                            crate::wire::header_bytes_len(spec.codec, &h) + 2 + u.len() > spec.cfg.max_packet as usize
                        })
                    })
                });
            let gap = feed_gap.borrow().clone();
            let sig = if (stall || no_room) && gap.is_some() {
                "C02:discovery-stall-after-incomplete-feed"
            } else if stall {
                "C02:discovery-stall"
            } else if no_room {
                "C02:discovery-stall-no-piggyback-room"
            } else {
                "C02:not-converged"
            };
            return Err(Fail::new(
                sig,
                format!(
                    "{} members did not all discover each other within {} probe periods after the last join (periodic_announce {}, max_transmissions {}, backlogs drained: {}, updates in flight: {}, knowledge symmetric: {}){}\n{}",
                    n,
                    6 * n + 20,
                    if spec.cfg.periodic_announce.is_some() { "on" } else { "off" },
                    spec.cfg.max_tx,
                    drained,
                    in_flight,
                    symmetric,
                    gap.map(|g| format!("\n a Feed left out a member its sender knew, with room to spare: {g}")).unwrap_or_default(),
                    sim.describe()
                ),
            ));
        }
        out.max("convergence_periods_after_last_join", periods(converged_at.unwrap() - t_done));
        out.max("convergence_periods_per_member_x100", periods(converged_at.unwrap() - t_done) * 100 / n);
    }
    if feed_gap.borrow().is_some() {
        out.class(if case.judge_discovery { "discovery_run_with_a_feed_that_left_out_a_known_member_with_room_to_spare" } else { "safety_only_run_with_a_feed_that_left_out_a_known_member_with_room_to_spare" });
    }
    // classification
    let non_first_seed = match &spec.formation {
        Formation::Join { joins } => joins.iter().take(spec.n as usize - 1).enumerate().any(|(k, (_, s))| ((*s as usize) * (k + 1)) >> 16 != 0),
        _ => false,
    };
    let pings = sim.kind_counts.get("Ping").copied().unwrap_or(0);
    out.sub_evaluations += sim.steps;
    out.class(if matches!(spec.formation, Formation::Join { .. }) { "formation_join" } else { "formation_inject" });
    if spec.cfg.periodic_announce.is_none() {
        out.class("periodic_announce_off");
    }
    if !case.judge_discovery {
        out.class("tiny_packet_safety_only");
    }
    if n >= 3 && non_first_seed && pings >= n {
        out.class("nontrivial_join_graph");
        let shape: Vec<usize> = match &spec.formation {
            Formation::Join { joins } => joins.iter().take(spec.n as usize - 1).enumerate().map(|(k, (_, s))| ((*s as usize) * (k + 1)) >> 16).collect(),
            _ => vec![],
        };
        out.nontrivial((n, spec.cfg.max_tx, spec.cfg.periodic_announce.is_some(), spec.cfg.periodic_gossip.is_some(), shape, sim.kind_counts.keys().collect::<Vec<_>>(), spec.codec));
    }
    if out.want_sample {
        out.sample = Some(json!({"spec": spec, "converged_after_periods": converged_at.map(|c| periods(c - t_done)), "message_kinds": sim.kind_counts, "events": sim.steps}));
    }
    Ok(())
}

fn feed_bytes(n: u32, codec: CodecKind) -> u32 {
    // header + count + (n-2) members, worst case for the codec
    match codec {
        CodecKind::Fix => 11 + 2 + n.saturating_sub(2) * 7,
        _ => 25 + 2 + n.saturating_sub(2) * 14,
    }
}

pub struct DiscoveryPart;
impl Part for DiscoveryPart {
    type Case = C02Case;
    fn name(&self) -> &'static str {
        "discovery-and-safety"
    }
    fn strategy(&self, tier: Tier) -> BoxedStrategy<C02Case> {
        let mut p = ClusterProfile::default();
        // a fault-free run raises no suspicion at all, so members may sit at the very top of the range
        p.inc_cap = u16::MAX;
        p.n = (2, tier.pick(12, 24));
        p.max_tx = (1, 10);
        p.join_formation = 1;
        p.inject_formation = 0;
        (cluster_spec(&p), 0..1000u32)
            .prop_map(|(mut spec, f)| {
                let lo = feed_bytes(spec.n as u32, spec.codec);
                spec.cfg.max_packet = lo + (1400u32.saturating_sub(lo)) * f / 1000 * (f % 2);
                C02Case { spec, judge_discovery: true }
            })
            .boxed()
    }
    fn cases(&self, tier: Tier) -> u64 {
        tier.pick(80_000, 1_000_000)
    }
    fn exec(&self, c: &C02Case, out: &mut CaseOut) -> Result<(), Fail> {
        exec(c, out)
    }
    fn max_shrink_iters(&self) -> u32 {
        3000
    }
}

/// Small clusters observed for hundreds of probe periods: counters that wrap (probe number, token) and
/// slow effects must not produce a false suspicion either.
pub struct LongRunPart;
impl Part for LongRunPart {
    type Case = C02Case;
    fn name(&self) -> &'static str {
        "long-run-safety"
    }
    fn strategy(&self, _tier: Tier) -> BoxedStrategy<C02Case> {
        let mut p = ClusterProfile::default();
        p.inc_cap = u16::MAX;
        p.n = (2, 4);
        p.max_tx = (1, 10);
        p.join_formation = 1;
        p.inject_formation = 1;
        cluster_spec(&p).prop_map(|spec| C02Case { spec, judge_discovery: false }).boxed()
    }
    fn cases(&self, tier: Tier) -> u64 {
        tier.pick(600, 10_000)
    }
    fn exec(&self, c: &C02Case, out: &mut CaseOut) -> Result<(), Fail> {
        let spec = &c.spec;
        let period = spec.period_us();
        let (mut sim, t_done) = form(spec, safety)?;
        sim.run_until(t_done + 600 * period, safety)?;
        out.sub_evaluations += sim.steps;
        out.class("long_run_600_periods");
        out.nontrivial((spec.n, spec.cfg.max_tx, spec.cfg.num_indirect, spec.codec, spec.cfg.periodic_gossip.is_some(), spec.cfg.periodic_announce.is_some()));
        Ok(())
    }
    fn max_shrink_iters(&self) -> u32 {
        200
    }
}

pub struct TinyPart;
impl Part for TinyPart {
    type Case = C02Case;
    fn name(&self) -> &'static str {
        "tiny-packets-safety"
    }
    fn strategy(&self, tier: Tier) -> BoxedStrategy<C02Case> {
        let mut p = ClusterProfile::default();
        p.inc_cap = u16::MAX;
        p.n = (2, tier.pick(10, 16));
        p.max_tx = (1, 10);
        p.join_formation = 1;
        p.inject_formation = 0;
        // from "every header just fits" (PingReq is the longest) upward
        p.packet = vec![(40, 90)];
        cluster_spec(&p)
            .prop_map(|mut spec| {
                if spec.codec == CodecKind::Fix {
                    spec.cfg.max_packet = 16 + (spec.cfg.max_packet - 40) / 2;
                }
                C02Case { spec, judge_discovery: false }
            })
            .boxed()
    }
    fn cases(&self, tier: Tier) -> u64 {
        tier.pick(24_000, 300_000)
    }
    fn exec(&self, c: &C02Case, out: &mut CaseOut) -> Result<(), Fail> {
        exec(c, out)
    }
    fn max_shrink_iters(&self) -> u32 {
        3000
    }
}

pub fn run(ctx: &Ctx, report: &mut Report) -> EvidenceMeta {
    ctx.run_part(&DiscoveryPart, report);
    ctx.run_part(&TinyPart, report);
    ctx.run_part(&LongRunPart, report);
    EvidenceMeta {
        level: "exploration",
        rule: "deterministic discrete-event simulation of whole clusters, every input generated by proptest: n in 2..=12 (24 thorough), join instants, seed member of each joiner (any earlier member), per-message latency uniform in [1us, L] with L < probe_rtt/4, every instance's RNG seed, own starting incarnations 0..Incarnation::MAX (reached through refuted suspicions before the run), fan-out 1..3, max_transmissions 1..10, periodic gossip / announce on or off, probe_rtt/probe_period 0.2..0.8, packet size from 'feeds the whole cluster' to 1400 (part 2: from 'every header just fits' upward, safety clause only; part 3: clusters of 2..4 observed for 600 probe periods, safety clause only, so that wrapping counters are crossed), fixed- and variable-length identities; timers fire exactly on time, ties in Timer's documented order. Oracle at every event: no call returns an error, no MemberDown/Idle/Defunct/Rejoin, no record other than Alive in the acting node's iter_membership_state(); at T_last_join + (6n+20) probe periods every instance lists exactly every other identity as Alive. Non-convergence with periodic announce off, all backlogs drained, nothing in flight, symmetric knowledge and only complete Feeds during the run (no Feed left out a member its sender listed as active although the entry would still have fit) is the listed known finding C02:discovery-stall; any other non-convergence is a violation. Non-trivial: n >= 3, a joiner used a non-first seed and every member completed probe rounds; distinct = (n, config class, join graph, message kinds, codec)."
            .into(),
        assumptions: vec![
            "transport delivers every datagram within probe_rtt/4, timers fire exactly on time (the statement's premises)".into(),
            "'linear in the cluster size' is judged against the explicit deadline (6n+20) probe periods".into(),
        ],
    }
}

pub fn replay(part_name: &str, case: &Value) -> Option<Result<(), Fail>> {
    match part_name {
        "discovery-and-safety" => Some(replay_with(&DiscoveryPart, case)),
        "tiny-packets-safety" => Some(replay_with(&TinyPart, case)),
        "long-run-safety" => Some(replay_with(&LongRunPart, case)),
        _ => None,
    }
}
