//! Cluster scenarios on top of the simulator: formation (real joins or injected state),
//! shared by C02–C05 and C18.
use crate::codec::CodecKind;
use crate::engine::Fail;
use crate::handler::HandlerSpec;
use crate::ident::*;
use crate::inst::*;
use crate::sim::*;
use foca::{Member, State};
use proptest::prelude::*;
use serde::{Deserialize, Serialize};

#[derive(Clone, Debug, Serialize, Deserialize)]
pub enum Formation {
    /// node 0 starts alone; node i joins at `at_ms` by announcing to an earlier node (index = raw*i>>16)
    Join { joins: Vec<(u32, u16)> },
    /// every node applies the full member list (apply_many, no broadcast) at its own offset
    Inject { offsets_ms: Vec<u32> },
}

#[derive(Clone, Debug, Serialize, Deserialize)]
pub struct ClusterSpec {
    pub n: u8,
    pub codec: CodecKind,
    pub seed: u64,
    /// per-message latency is uniform in [1us, lat_max_us]
    pub lat_max_us: u32,
    pub cfg: CfgSpec,
    pub renew: u8,
    pub formation: Formation,
    /// own incarnation each node starts with (a history of refuted suspicions); empty = all zero
    #[serde(default)]
    pub incarnations: Vec<u16>,
}

impl ClusterSpec {
    pub fn period_us(&self) -> u64 {
        self.cfg.probe_period_ms as u64 * MS
    }
    pub fn addr(i: usize) -> u16 {
        i as u16 + 1
    }
}

thread_local! {
    /// when set, simulators created by `form` keep the bytes of every datagram sent (C07's traffic part)
    pub static KEEP_SENT: std::cell::Cell<bool> = std::cell::Cell::new(false);
}

/// Builds the simulator and schedules formation. Returns the sim and the instant formation is done
/// (last join / last injection). `on_step` sees every event during formation.
pub fn form<E>(spec: &ClusterSpec, mut on_step: impl FnMut(&Sim, &StepInfo) -> Result<(), E>) -> Result<(Sim, u64), E> {
    let mut sim = Sim::new(spec.codec, spec.seed ^ 0xC1A5_7E12, 1, spec.lat_max_us as u64);
    sim.keep_sent = KEEP_SENT.with(|k| k.get());
    let n = spec.n as usize;
    let nseed = |i: usize| crate::engine::splitmix(spec.seed, i as u64 + 1);
    let inc_of = |i: usize| spec.incarnations.get(i).copied().unwrap_or(0);
    // a node whose incarnation is > 0 got there the only legitimate way: it refuted a suspicion earlier
    fn raise(sim: &mut Sim, i: usize, inc: u16) {
        if inc > 0 {
            let me = sim.identity(i);
            let _ = sim.call(i, Call::ApplyMany(vec![Member::new(me, inc - 1, State::Suspect)], false));
        }
    }
    match &spec.formation {
        Formation::Inject { offsets_ms } => {
            for i in 0..n {
                sim.add_node(ClusterSpec::addr(i), 0, spec.renew, &spec.cfg, nseed(i), HandlerSpec::OFF);
                raise(&mut sim, i, inc_of(i));
            }
            let mut order: Vec<(u64, usize)> = (0..n).map(|i| (offsets_ms.get(i).copied().unwrap_or(0) as u64 * MS, i)).collect();
            order.sort();
            let mut done = 0;
            for (t, i) in order {
                sim.run_until(t, &mut on_step)?;
                let others: Vec<Member<Id>> = (0..n).filter(|j| *j != i).map(|j| Member::new(Id::new(ClusterSpec::addr(j), 0), inc_of(j), State::Alive)).collect();
                let info = sim.call(i, Call::ApplyMany(others, false));
                on_step(&sim, &info)?;
                done = t;
            }
            Ok((sim, done))
        }
        Formation::Join { joins } => {
            sim.add_node(ClusterSpec::addr(0), 0, spec.renew, &spec.cfg, nseed(0), HandlerSpec::OFF);
            raise(&mut sim, 0, inc_of(0));
            let mut js: Vec<(u64, u16)> = joins.iter().take(n.saturating_sub(1)).map(|(t, s)| (*t as u64 * MS, *s)).collect();
            while js.len() < n.saturating_sub(1) {
                js.push((js.last().map(|x| x.0).unwrap_or(0) + 100 * MS, 0));
            }
            js.sort();
            let mut done = 0;
            for (k, (t, seed_raw)) in js.iter().enumerate() {
                let i = k + 1;
                sim.run_until(*t, &mut on_step)?;
                let idx = sim.add_node(ClusterSpec::addr(i), 0, spec.renew, &spec.cfg, nseed(i), HandlerSpec::OFF);
                raise(&mut sim, idx, inc_of(i));
                let seed_member = ((*seed_raw as usize) * i) >> 16;
                let to = sim.identity(seed_member);
                let info = sim.call(idx, Call::Announce(to));
                on_step(&sim, &info)?;
                done = *t;
            }
            Ok((sim, done))
        }
    }
}

/// Upper bound on simulator events (deliveries + timers) per member and probe period. A correct cluster
/// stays two orders of magnitude below it; exceeding it means datagrams keep answering datagrams
/// (a reply storm), which no simulated property survives and which would otherwise never end.
pub const STORM_EVENTS_PER_MEMBER_PERIOD: u64 = 5000;

pub fn panic_or_err(sim: &Sim, info: &StepInfo, prop: &str, allow_err: bool) -> Result<(), Fail> {
    if sim.steps & 0x3ff == 0 && !sim.nodes.is_empty() {
        let period = sim.nodes[0].inst.cfg.probe_period_ms as u64 * MS;
        let budget = STORM_EVENTS_PER_MEMBER_PERIOD * sim.nodes.len() as u64 * (sim.now / period.max(1) + 10);
        if sim.steps > budget {
            return Err(Fail::new(
                format!("{prop}:message-storm"),
                format!(
                    "{} simulator events in {} probe periods for {} members (more than {} per member and period): datagrams keep triggering datagrams; last event: node{} {} (delivered {:?})\n{}",
                    sim.steps,
                    sim.now / period.max(1),
                    sim.nodes.len(),
                    STORM_EVENTS_PER_MEMBER_PERIOD,
                    info.node,
                    info.call_kind,
                    info.delivered_kind,
                    sim.describe()
                ),
            ));
        }
    }
    if let Some(p) = &info.panic {
        return Err(Fail::new("panic", format!("Foca panicked at t={}us on node{} during {}: {}", info.t, info.node, info.call_kind, p)));
    }
    if !allow_err {
        if let Some((k, m)) = &info.err {
            return Err(Fail::new(
                format!("{prop}:call-returned-error"),
                format!("t={}us node{} {} (delivered {:?}) returned {:?}: {}", info.t, info.node, info.call_kind, info.delivered_kind, k, m),
            ));
        }
    }
    Ok(())
}

// ---------------------------------------------------------------------------------------
// strategies
// ---------------------------------------------------------------------------------------

#[derive(Clone, Debug)]
pub struct ClusterProfile {
    pub n: (u8, u8),
    pub max_tx: (u8, u8),
    pub join_formation: u32,
    pub inject_formation: u32,
    pub periodic_gossip: bool,
    pub periodic_announce: Option<bool>,
    pub announce_down: Option<(u32, u32)>,
    pub notify_down: Option<bool>,
    pub renew: Vec<u8>,
    pub codecs: Vec<CodecKind>,
    pub packet: Vec<(u32, u32)>,
    pub suspect_periods: (u32, u32),
    /// largest starting incarnation (the default leaves room for 8 refutations below Incarnation::MAX)
    pub inc_cap: u16,
}

impl Default for ClusterProfile {
    fn default() -> Self {
        ClusterProfile {
            n: (2, 8),
            max_tx: (3, 10),
            join_formation: 1,
            inject_formation: 1,
            periodic_gossip: true,
            periodic_announce: None,
            announce_down: None,
            notify_down: None,
            renew: vec![RENEW_NONE, RENEW_NEXT],
            codecs: vec![CodecKind::Fix, CodecKind::Fix, CodecKind::Var, CodecKind::Var, CodecKind::Postcard, CodecKind::Bincode],
            packet: vec![(1400, 1401)],
            suspect_periods: (3, 6),
            inc_cap: u16::MAX - 8,
        }
    }
}

pub fn cluster_spec(p: &ClusterProfile) -> BoxedStrategy<ClusterSpec> {
    let p = p.clone();
    let packet: Vec<BoxedStrategy<u32>> = p.packet.iter().map(|(a, b)| (*a..*b).boxed()).collect();
    let pa = match p.periodic_announce {
        Some(true) => (1..4u32, 1..3u8).prop_map(|(f, n)| Some((f, n))).boxed(),
        Some(false) => Just(None).boxed(),
        None => prop_oneof![Just(None), (1..4u32, 1..3u8).prop_map(|(f, n)| Some((f, n)))].boxed(),
    };
    let pad = match p.announce_down {
        Some((a, b)) => (a..=b, 1..4u8).prop_map(|(f, n)| Some((f, n))).boxed(),
        None => Just(None).boxed(),
    };
    let pg = if p.periodic_gossip { prop_oneof![Just(None), (100..900u32, 1..4u8).prop_map(|(f, n)| Some((f, n)))].boxed() } else { Just(None).boxed() };
    let notify = match p.notify_down {
        Some(b) => Just(b).boxed(),
        None => any::<bool>().boxed(),
    };
    let (jf, inf) = (p.join_formation, p.inject_formation);
    let inc_cap = p.inc_cap;
    (
        (p.n.0..=p.n.1, proptest::sample::select(p.codecs.clone()), any::<u64>(), proptest::sample::select(p.renew.clone())),
        (1..4u8, p.max_tx.0..=p.max_tx.1, proptest::strategy::Union::new(packet), notify, p.suspect_periods.0..=p.suspect_periods.1),
        (pa, pad, pg),
        // probe_rtt / probe_period ratio 0.2..0.8, latency below rtt/4
        (200..800u32, 1..1000u32),
        proptest::collection::vec(prop_oneof![8 => Just(0u16), 6 => 1..4u16, 1 => any::<u16>().prop_map(move |x| x.min(inc_cap)), 1 => (0..3u16).prop_map(move |d| inc_cap - d)], 24),
        (proptest::collection::vec((0..1500u32, any::<u16>()), 24), proptest::collection::vec(0..1000u32, 24), proptest::strategy::Union::new_weighted(vec![(jf.max(0), Just(true).boxed()), (inf.max(0), Just(false).boxed())].into_iter().filter(|x| x.0 > 0).collect::<Vec<_>>())),
    )
        .prop_map(|((n, codec, seed, renew), (num_indirect, max_tx, max_packet, notify_down, s2d), (pa, pad, pg), (rtt_ratio, lat_frac), incarnations, (joins, offsets, join))| {
            let period = 1000u32;
            let rtt = period * rtt_ratio / 1000;
            // latency strictly below rtt/4 (in us)
            let lat_cap = (rtt as u64 * 1000 / 4).saturating_sub(1).max(1);
            let lat_max_us = ((lat_cap * lat_frac as u64) / 1000).max(1) as u32;
            let cfg = CfgSpec {
                probe_period_ms: period,
                probe_rtt_ms: rtt,
                num_indirect,
                max_tx,
                suspect_to_down_ms: s2d * period,
                remove_down_ms: 3_600_000,
                max_packet,
                notify_down,
                periodic_announce: pa.map(|(f, num)| Periodic { every_ms: f * period, num }),
                periodic_announce_down: pad.map(|(f, num)| Periodic { every_ms: f * period, num }),
                periodic_gossip: pg.map(|(f, num)| Periodic { every_ms: f, num }),
            };
            let formation = if join {
                // joins spread over n*300ms on average
                let mut t = 0u32;
                Formation::Join { joins: joins.into_iter().map(|(d, s)| { t += d; (t, s) }).collect() }
            } else {
                Formation::Inject { offsets_ms: offsets }
            };
            ClusterSpec { n, codec, seed, lat_max_us, cfg, renew, formation, incarnations }
        })
        .boxed()
}
