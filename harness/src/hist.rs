//! Random single-instance histories judged by an online monitor (shared by C08–C13, C19).
use crate::codec::CodecKind;
use crate::engine::{CaseOut, Fail, Part, Tier};
use crate::ident::Id;
use crate::inst::{Call, CallRec};
use crate::ops::{self, Case, Origin, Profile, Runner, SetupProfile};
use crate::rt::Ev;
use crate::wire::{self, Dgram};
use foca::OwnedNotification as N;
use proptest::strategy::BoxedStrategy;

pub trait Monitor {
    fn on_call(&mut self, rec: &CallRec, origin: &Origin, runner: &Runner) -> Result<(), Fail>;
    fn finish(&mut self, _out: &mut CaseOut) {}
}

pub struct HistPart<M, F>
where
    F: Fn(&ops::Setup) -> M + Sync,
{
    pub name: &'static str,
    pub sp: SetupProfile,
    pub p: Profile,
    pub cases_quick: u64,
    pub cases_thorough: u64,
    pub mk: F,
}

pub fn run_history<M: Monitor>(case: &Case, mon: &mut M, out: &mut CaseOut) -> Result<(), Fail> {
    run_history_opts(case, mon, out, false)
}

/// `no_active_takeover`: change_identity onto another address is skipped while the instance lists an
/// active member there (claiming the address of a member one believes alive is outside C19's domain).
pub fn run_history_opts<M: Monitor>(case: &Case, mon: &mut M, out: &mut CaseOut, no_active_takeover: bool) -> Result<(), Fail> {
    let mut runner = Runner::new(&case.setup);
    runner.no_active_takeover = no_active_takeover;
    let codec = case.setup.codec;
    let keep = out.want_sample;
    let mut tail: std::collections::VecDeque<String> = std::collections::VecDeque::new();
    let mut all: Vec<String> = Vec::new();
    for op in &case.ops {
        let Some((rec, origin)) = runner.step(op) else { continue };
        let line = format!("#{} {}", runner.ncalls - 1, rec.render(codec));
        if keep && all.len() < 40 {
            all.push(line.clone());
        }
        tail.push_back(line);
        if tail.len() > 12 {
            tail.pop_front();
        }
        if let crate::inst::Res::Panic(msg) = &rec.res {
            return Err(Fail::new(
                "panic",
                format!("Foca panicked: {}\nhistory tail:\n  {}", msg, tail.iter().cloned().collect::<Vec<_>>().join("\n  ")),
            ));
        }
        if let Err(mut f) = mon.on_call(&rec, &origin, &runner) {
            f.message = format!(
                "{}\n identity={} config={:?}\n history tail (last call is the failing one):\n  {}",
                f.message,
                rec.before.identity,
                runner.inst.cfg,
                tail.iter().cloned().collect::<Vec<_>>().join("\n  ")
            );
            return Err(f);
        }
    }
    mon.finish(out);
    if keep {
        out.sample = Some(serde_json::json!({ "setup": case.setup, "calls": all }));
    }
    Ok(())
}

impl<M, F> Part for HistPart<M, F>
where
    M: Monitor,
    F: Fn(&ops::Setup) -> M + Sync,
{
    type Case = Case;
    fn name(&self) -> &'static str {
        self.name
    }
    fn strategy(&self, _tier: Tier) -> BoxedStrategy<Case> {
        ops::case(&self.sp, &self.p)
    }
    fn cases(&self, tier: Tier) -> u64 {
        tier.pick(self.cases_quick, self.cases_thorough)
    }
    fn exec(&self, case: &Case, out: &mut CaseOut) -> Result<(), Fail> {
        let mut mon = (self.mk)(&case.setup);
        run_history_opts(case, &mut mon, out, self.p.takeover_inactive_only)
    }
}

/// The identities the instance held during one call, in order (DESIGN §3.1a).
pub fn identity_chain(rec: &CallRec) -> Vec<Id> {
    let mut chain = vec![rec.before.identity];
    for e in &rec.evs {
        if let Ev::Note(N::Rejoin(x)) = e {
            if chain.last() != Some(x) {
                chain.push(*x);
            }
        }
    }
    if let (Call::ChangeIdentity(x), true) = (&rec.call, rec.res.is_ok()) {
        if chain.last() != Some(x) {
            chain.push(*x);
        }
    }
    if chain.last() != Some(&rec.after.identity) {
        chain.push(rec.after.identity);
    }
    chain
}

pub struct SentDgram<'a> {
    /// the instance's identity when this datagram was handed over
    pub identity: Id,
    pub to: &'a Id,
    pub bytes: &'a [u8],
    pub dgram: Dgram,
    /// index in rec.evs
    pub ev_index: usize,
}

/// Parses every datagram sent in a call and attributes it to a position in the identity chain.
/// The gossip announcing a renewal is sent under the new identity *before* the Rejoin
/// notification, so a datagram may run ahead of the notifications but never behind them.
pub fn sent_dgrams<'a>(rec: &'a CallRec, codec: CodecKind, sig_prefix: &str) -> Result<Vec<SentDgram<'a>>, Fail> {
    let chain = identity_chain(rec);
    let mut pos = 0usize;
    let mut out = Vec::new();
    for (i, e) in rec.evs.iter().enumerate() {
        match e {
            Ev::Note(N::Rejoin(x)) => {
                if let Some(q) = chain.iter().skip(pos).position(|c| c == x) {
                    pos += q;
                }
            }
            Ev::Send { to, bytes } => {
                let d = wire::parse(bytes, codec).map_err(|e| {
                    Fail::new(format!("{sig_prefix}:unparseable-send"), format!("emitted datagram does not parse: {e}: {}", wire::hex(bytes)))
                })?;
                match chain.iter().skip(pos).position(|c| *c == d.header.src) {
                    Some(q) => pos += q,
                    None => {
                        return Err(Fail::new(
                            format!("{sig_prefix}:src-not-current-identity"),
                            format!(
                                "datagram {} has src {} which is not an identity the instance held at that point (chain {:?}, position {})",
                                wire::render(bytes, codec),
                                d.header.src,
                                chain,
                                pos
                            ),
                        ))
                    }
                }
                out.push(SentDgram { identity: chain[pos], to, bytes, dgram: d, ev_index: i });
            }
            _ => {}
        }
    }
    Ok(out)
}

/// Connection state as implied by the notification stream (C08's machine), reused by other monitors.
#[derive(Clone, Copy, PartialEq, Eq, Debug, Hash)]
pub enum ConnState {
    Idle,
    Active,
    Defunct,
}

#[derive(Clone, Debug)]
pub struct ConnTracker {
    pub state: ConnState,
    /// number of epoch changes so far (Idle, Defunct, Rejoin, successful change_identity / reuse_down_identity)
    pub epoch: u64,
}

impl Default for ConnTracker {
    fn default() -> Self {
        ConnTracker { state: ConnState::Idle, epoch: 0 }
    }
}

impl ConnTracker {
    pub fn absorb(&mut self, rec: &CallRec) {
        if let (Call::ChangeIdentity(_), true) | (Call::ReuseDown, true) = (&rec.call, rec.res.is_ok()) {
            // reset() happens before anything else in these calls
            self.state = ConnState::Idle;
            self.epoch += 1;
        }
        for e in &rec.evs {
            if let Ev::Note(n) = e {
                match n {
                    N::Active => self.state = ConnState::Active,
                    N::Idle => {
                        self.state = ConnState::Idle;
                        self.epoch += 1;
                    }
                    N::Defunct => {
                        self.state = ConnState::Defunct;
                        self.epoch += 1;
                    }
                    N::Rejoin(_) => {
                        self.state = ConnState::Idle;
                        self.epoch += 1;
                    }
                    _ => {}
                }
            }
        }
    }
}
