//! Reference models shared by the oracles: the structural acceptance classifier for input
//! datagrams (DESIGN §3.1a), the SWIM precedence lattice (§3.3) and small helpers.
use crate::codec::CodecKind;
use crate::ident::Id;
use crate::inst::{Call, CallRec, View};
use crate::wire::{self, Dgram};
use foca::{Identity, Member, Message, State};

#[derive(Clone, Debug, PartialEq, Eq)]
pub enum Reject {
    TooBig,
    HeaderUndecodable,
    FromOurselves,
    StrayByte,
    AnnounceWithData,
    NotForUs,
    MembersUndecodable,
}

#[derive(Clone, Debug)]
pub struct DgClass {
    pub reject: Option<Reject>,
    pub dgram: Option<Dgram>,
    /// sender is considered active right after its header is applied (lattice rule on the before-state)
    pub sender_active: bool,
    /// true when the custom-broadcast tail is malformed (processed first, error afterwards)
    pub bad_tail: bool,
}

impl DgClass {
    pub fn accepted(&self) -> bool {
        self.reject.is_none()
    }
    /// update section was handed to apply_many
    pub fn updates_processed(&self) -> bool {
        self.accepted() && self.sender_active
    }
}

/// Would `src` be active right after `Alive(src, inc)` is applied to `before`?
pub fn sender_active_after_header(before: &View, src: &Id) -> bool {
    match before.record(src.addr) {
        None => true,
        Some(r) if r.id() == src => r.state() != State::Down,
        Some(r) => !r.id().win_addr_conflict(src),
    }
}

/// Structural classification of an input datagram, independent of Foca's receive path.
pub fn classify(before: &View, max_packet: usize, codec: CodecKind, bytes: &[u8]) -> DgClass {
    let mut c = DgClass { reject: None, dgram: None, sender_active: false, bad_tail: false };
    if bytes.len() > max_packet {
        c.reject = Some(Reject::TooBig);
        return c;
    }
    // header only first
    let mut cc = crate::codec::AnyCodec(codec);
    let mut cur: &[u8] = bytes;
    let header = match foca::Codec::decode_header(&mut cc, &mut cur) {
        Ok(h) => h,
        Err(_) => {
            c.reject = Some(Reject::HeaderUndecodable);
            return c;
        }
    };
    let rest = cur.len();
    if header.src == before.identity || header.src.addr == before.identity.addr {
        c.reject = Some(Reject::FromOurselves);
        return c;
    }
    if rest == 1 {
        c.reject = Some(Reject::StrayByte);
        return c;
    }
    if header.message == Message::Announce && rest > 0 {
        c.reject = Some(Reject::AnnounceWithData);
        return c;
    }
    let for_us = header.dst == before.identity
        || (header.message == Message::Announce && header.dst.addr == before.identity.addr);
    if !for_us {
        c.reject = Some(Reject::NotForUs);
        return c;
    }
    // member section
    match wire::parse(bytes, codec) {
        Ok(d) => {
            c.dgram = Some(d);
        }
        Err(_) => {
            // distinguish "members do not decode" from "tail malformed": re-parse members only
            match parse_members_only(bytes, codec) {
                Some(d) => {
                    c.bad_tail = true;
                    c.dgram = Some(d);
                }
                None => {
                    c.reject = Some(Reject::MembersUndecodable);
                    return c;
                }
            }
        }
    }
    c.sender_active = sender_active_after_header(before, &header.src);
    c
}

/// Parses header + member section, ignoring whatever follows. None if members do not decode.
fn parse_members_only(bytes: &[u8], codec: CodecKind) -> Option<Dgram> {
    let mut cc = crate::codec::AnyCodec(codec);
    let mut cur: &[u8] = bytes;
    let header = foca::Codec::decode_header(&mut cc, &mut cur).ok()?;
    let header_len = bytes.len() - cur.len();
    let mut members = None;
    let mut member_bytes = Vec::new();
    // the receiver reads a member section for every kind but Broadcast when >= 2 bytes follow
    if header.message != Message::Broadcast && cur.len() >= 2 {
        let count = u16::from_be_bytes([cur[0], cur[1]]) as usize;
        cur = &cur[2..];
        let mut v = Vec::new();
        for _ in 0..count {
            let before = cur;
            let m = foca::Codec::decode_member(&mut cc, &mut cur).ok()?;
            member_bytes.push(before[..before.len() - cur.len()].to_vec());
            v.push(m);
        }
        members = Some(v);
    }
    let members_end = bytes.len() - cur.len();
    Some(Dgram { header, header_len, members, member_bytes, members_end, items: Vec::new(), len: bytes.len() })
}

/// The membership updates a call delivered to the instance, and whether they were processed.
pub struct Delivered {
    pub class: Option<DgClass>,
    pub updates: Vec<Member<Id>>,
    pub processed: bool,
    pub message: Option<Message<Id>>,
    pub src: Option<(Id, u16)>,
}

pub fn delivered(rec: &CallRec, max_packet: usize, codec: CodecKind) -> Delivered {
    match &rec.call {
        Call::ApplyMany(ms, _) => Delivered { class: None, updates: ms.clone(), processed: true, message: None, src: None },
        Call::Data(b) => {
            let c = classify(&rec.before, max_packet, codec, b);
            let (updates, message, src) = match &c.dgram {
                Some(d) => (
                    d.members.clone().unwrap_or_default(),
                    Some(d.header.message.clone()),
                    Some((d.header.src, d.header.src_incarnation)),
                ),
                None => (Vec::new(), None, None),
            };
            let processed = c.updates_processed();
            Delivered { class: Some(c), updates, processed, message, src }
        }
        _ => Delivered { class: None, updates: Vec::new(), processed: false, message: None, src: None },
    }
}

// ---------------------------------------------------------------------------------------
// Precedence lattice (SWIM §4.2 + address-conflict rule), DESIGN §3.3
// ---------------------------------------------------------------------------------------

/// Lattice value of one address: (generation, rank). Down = top rank.
#[derive(Clone, Copy, Debug, PartialEq, Eq, PartialOrd, Ord)]
pub struct LVal {
    pub gen: u16,
    /// (1, 0, 0) for Down; otherwise (0, incarnation, suspect as 1)
    pub rank: (u8, u16, u8),
}

pub fn lval(m: &Member<Id>) -> LVal {
    LVal {
        gen: m.id().gen,
        rank: match m.state() {
            State::Down => (1, 0, 0),
            State::Suspect => (0, m.incarnation(), 1),
            State::Alive => (0, m.incarnation(), 0),
        },
    }
}

pub fn lval_to_view(addr: u16, v: &LVal) -> (Id, State, Option<u16>) {
    let id = Id::new(addr, v.gen);
    match v.rank {
        (1, _, _) => (id, State::Down, None),
        (_, inc, 1) => (id, State::Suspect, Some(inc)),
        (_, inc, _) => (id, State::Alive, Some(inc)),
    }
}
