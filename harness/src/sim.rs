//! Deterministic discrete-event cluster simulator (DESIGN §3.4). Time, latency, loss,
//! partitions and crash instants are plain data owned by the harness.
use crate::codec::CodecKind;
use crate::handler::HandlerSpec;
use crate::ident::*;
use crate::inst::*;
use crate::rt::Ev;
use crate::wire;
use foca::{Member, OwnedNotification as N, State, Timer};
use rand::{rngs::SmallRng, Rng, SeedableRng};
use std::cmp::Reverse;
use std::collections::{BTreeMap, BTreeSet, BinaryHeap};

pub const US: u64 = 1;
pub const MS: u64 = 1000;

#[derive(Debug, Clone)]
pub enum Payload {
    Deliver { to_addr: u16, bytes: Vec<u8>, from: usize, index: u64 },
    Fire { node: usize, timer: Timer<Id> },
}

#[derive(Debug, Clone)]
pub struct NoteRec {
    pub t: u64,
    pub node: usize,
    pub note: N<Id>,
    /// index of the step (call) in which it was notified
    pub step: u64,
}

pub struct Node {
    pub inst: Inst,
    pub addr: u16,
    pub crashed: bool,
    pub left_at: Option<u64>,
    pub joined_at: u64,
}

#[derive(Debug, Clone)]
pub struct StepInfo {
    pub t: u64,
    pub node: usize,
    pub step: u64,
    pub call_kind: &'static str,
    /// message kind of the delivered datagram, if any
    pub delivered_kind: Option<&'static str>,
    /// (sending node, global send index) of the delivered datagram
    pub delivered_from: Option<(usize, u64)>,
    /// global send index of the first datagram sent in this step
    pub first_sent_index: u64,
    /// the delivered datagram itself
    pub delivered_bytes: Option<Vec<u8>>,
    pub res_ok: bool,
    pub err: Option<(ErrKind, String)>,
    pub panic: Option<String>,
    pub notes: Vec<N<Id>>,
    /// (destination, message kind) of every datagram sent in this step
    pub sent: Vec<(Id, &'static str)>,
    /// the datagrams themselves (only when Sim::keep_sent is set)
    pub sent_bytes: Vec<(Id, Vec<u8>)>,
    /// identity of the acting node before the call
    pub identity_before: Id,
}

pub struct Sim {
    pub nodes: Vec<Node>,
    pub now: u64,
    queue: BinaryHeap<Reverse<(u64, u8, u64)>>,
    payloads: BTreeMap<u64, Payload>,
    seq: u64,
    pub rng: SmallRng,
    pub codec: CodecKind,
    pub lat_min: u64,
    pub lat_max: u64,
    /// datagrams sent so far (global index of the next one)
    pub sent_count: u64,
    pub steps: u64,
    // faults
    pub drop_index: Option<u64>,
    pub dropped: Option<(u64, usize, u16, &'static str)>,
    /// nodes on side A of a partition (traffic across is dropped); None = no partition
    pub partition: Option<BTreeSet<usize>>,
    /// drop everything addressed to this address
    pub block_to: Option<u16>,
    // logs
    pub notes: Vec<NoteRec>,
    pub kind_counts: BTreeMap<&'static str, u64>,
    pub lost_to_faults: u64,
    pub undeliverable: u64,
    pub keep_sent: bool,
}

impl Sim {
    pub fn new(codec: CodecKind, seed: u64, lat_min: u64, lat_max: u64) -> Self {
        Sim {
            nodes: Vec::new(),
            now: 0,
            queue: BinaryHeap::new(),
            payloads: BTreeMap::new(),
            seq: 0,
            rng: SmallRng::seed_from_u64(seed),
            codec,
            lat_min: lat_min.max(1),
            lat_max: lat_max.max(lat_min.max(1)),
            sent_count: 0,
            steps: 0,
            drop_index: None,
            dropped: None,
            partition: None,
            block_to: None,
            notes: Vec::new(),
            kind_counts: BTreeMap::new(),
            lost_to_faults: 0,
            undeliverable: 0,
            keep_sent: false,
        }
    }

    pub fn add_node(&mut self, addr: u16, gen: u16, renew: u8, cfg: &CfgSpec, seed: u64, handler: HandlerSpec) -> usize {
        let inst = Inst::new(Id::with_renew(addr, gen, renew), cfg.clone(), self.codec, seed, handler);
        self.nodes.push(Node { inst, addr, crashed: false, left_at: None, joined_at: self.now });
        self.nodes.len() - 1
    }

    fn push(&mut self, t: u64, class: u8, p: Payload) {
        self.seq += 1;
        self.payloads.insert(self.seq, p);
        self.queue.push(Reverse((t, class, self.seq)));
    }

    pub fn node_of_addr(&self, addr: u16) -> Option<usize> {
        self.nodes.iter().position(|n| n.addr == addr)
    }

    pub fn identity(&self, node: usize) -> Id {
        *self.nodes[node].inst.foca.identity()
    }

    pub fn pending_events(&self) -> usize {
        self.queue.len()
    }

    pub fn next_time(&self) -> Option<u64> {
        self.queue.peek().map(|r| r.0 .0)
    }

    /// Datagrams in flight that carry at least one membership update.
    pub fn updates_in_flight(&self) -> usize {
        self.payloads
            .values()
            .filter(|p| match p {
                Payload::Deliver { bytes, .. } => wire::parse(bytes, self.codec).map(|d| d.members.map(|m| !m.is_empty()).unwrap_or(false)).unwrap_or(false),
                _ => false,
            })
            .count()
    }

    /// Executes an API call on a node "now" and routes its effects. Returns what happened.
    pub fn call(&mut self, node: usize, call: Call) -> StepInfo {
        self.exec(node, call, None, None)
    }

    fn exec(&mut self, node: usize, call: Call, delivered_kind: Option<&'static str>, delivered_from: Option<(usize, u64)>) -> StepInfo {
        self.steps += 1;
        let step = self.steps;
        let call_kind = call.kind();
        let identity_before = *self.nodes[node].inst.foca.identity();
        let (res, evs, _hook, _h) = self.nodes[node].inst.raw_call(&call);
        let mut info = StepInfo {
            t: self.now,
            node,
            step,
            call_kind,
            delivered_kind,
            delivered_from,
            first_sent_index: self.sent_count,
            delivered_bytes: match call {
                Call::Data(b) => Some(b),
                _ => None,
            },
            res_ok: res.is_ok(),
            err: match &res {
                Res::Err(k, m) => Some((*k, m.clone())),
                _ => None,
            },
            panic: match &res {
                Res::Panic(m) => Some(m.clone()),
                _ => None,
            },
            notes: Vec::new(),
            sent: Vec::new(),
            sent_bytes: Vec::new(),
            identity_before,
        };
        for e in evs {
            match e {
                Ev::Note(n) => {
                    self.notes.push(NoteRec { t: self.now, node, note: n.clone(), step });
                    info.notes.push(n);
                }
                Ev::Timer { timer, after } => {
                    let t = self.now + after.as_micros() as u64;
                    let class = 1 + timer_class(&timer);
                    self.push(t, class, Payload::Fire { node, timer });
                }
                Ev::Send { to, bytes } => {
                    let kind = wire::parse(&bytes, self.codec).map(|d| wire::kind_name(&d.header.message)).unwrap_or("unparseable");
                    *self.kind_counts.entry(kind).or_insert(0) += 1;
                    info.sent.push((to, kind));
                    if self.keep_sent {
                        info.sent_bytes.push((to, bytes.clone()));
                    }
                    let index = self.sent_count;
                    self.sent_count += 1;
                    // faults
                    if self.drop_index == Some(index) {
                        self.dropped = Some((self.now, node, to.addr, kind));
                        self.lost_to_faults += 1;
                        continue;
                    }
                    if self.block_to == Some(to.addr) {
                        self.lost_to_faults += 1;
                        continue;
                    }
                    if let Some(side) = &self.partition {
                        if let Some(dst) = self.node_of_addr(to.addr) {
                            if side.contains(&node) != side.contains(&dst) {
                                self.lost_to_faults += 1;
                                continue;
                            }
                        }
                    }
                    let lat = if self.lat_max > self.lat_min { self.rng.random_range(self.lat_min..=self.lat_max) } else { self.lat_min };
                    let t = self.now + lat;
                    self.push(t, 0, Payload::Deliver { to_addr: to.addr, bytes, from: node, index });
                }
            }
        }
        info
    }

    /// Pops and executes the next event. None when the queue is empty.
    pub fn step(&mut self) -> Option<StepInfo> {
        loop {
            let Reverse((t, _class, seq)) = self.queue.pop()?;
            let p = self.payloads.remove(&seq).expect("payload");
            self.now = self.now.max(t);
            match p {
                Payload::Deliver { to_addr, bytes, from, index } => {
                    let Some(node) = self.node_of_addr(to_addr) else {
                        self.undeliverable += 1;
                        continue;
                    };
                    if self.nodes[node].crashed {
                        continue;
                    }
                    let kind = wire::parse(&bytes, self.codec).map(|d| wire::kind_name(&d.header.message)).unwrap_or("unparseable");
                    return Some(self.exec(node, Call::Data(bytes), Some(kind), Some((from, index))));
                }
                Payload::Fire { node, timer } => {
                    if self.nodes[node].crashed {
                        continue;
                    }
                    return Some(self.exec(node, Call::Timer(timer), None, None));
                }
            }
        }
    }

    /// Runs every event with time <= t. `f` is called after each executed event.
    pub fn run_until<E>(&mut self, t: u64, mut f: impl FnMut(&Sim, &StepInfo) -> Result<(), E>) -> Result<(), E> {
        while let Some(nt) = self.next_time() {
            if nt > t {
                break;
            }
            if let Some(info) = self.step() {
                f(self, &info)?;
            }
        }
        self.now = self.now.max(t);
        Ok(())
    }

    pub fn crash(&mut self, node: usize) {
        self.nodes[node].crashed = true;
    }

    pub fn live(&self) -> Vec<usize> {
        (0..self.nodes.len()).filter(|i| !self.nodes[*i].crashed && self.nodes[*i].left_at.is_none()).collect()
    }

    pub fn active_ids(&self, node: usize) -> BTreeSet<Id> {
        self.nodes[node].inst.foca.iter_members().map(|m| *m.id()).collect()
    }

    pub fn state(&self, node: usize) -> Vec<Member<Id>> {
        self.nodes[node].inst.foca.iter_membership_state().cloned().collect()
    }

    /// Does every live node list exactly every other live node's current identity as Alive?
    pub fn fully_converged(&self, require_alive: bool) -> bool {
        let live = self.live();
        for i in &live {
            let want: BTreeSet<Id> = live.iter().filter(|j| *j != i).map(|j| self.identity(*j)).collect();
            if self.active_ids(*i) != want {
                return false;
            }
            if require_alive && self.nodes[*i].inst.foca.iter_members().any(|m| m.state() != State::Alive) {
                return false;
            }
        }
        true
    }

    pub fn describe(&self) -> String {
        let mut s = String::new();
        for (i, n) in self.nodes.iter().enumerate() {
            s.push_str(&format!(
                "  node{} id={} {}{} knows [{}]\n",
                i,
                n.inst.foca.identity(),
                if n.crashed { "CRASHED " } else { "" },
                if n.left_at.is_some() { "LEFT " } else { "" },
                n.inst.foca.iter_membership_state().map(|m| format!("{}:{}:{:?}", m.id(), m.incarnation(), m.state())).collect::<Vec<_>>().join(" ")
            ));
        }
        s
    }
}

fn timer_class(t: &Timer<Id>) -> u8 {
    // same order as Timer's Ord (SendIndirectProbe before ProbeRandomMember, ...)
    match t {
        Timer::SendIndirectProbe { .. } => 0,
        Timer::ProbeRandomMember(_) => 1,
        Timer::ChangeSuspectToDown { .. } => 2,
        Timer::PeriodicAnnounce(_) => 3,
        Timer::PeriodicGossip(_) => 4,
        Timer::RemoveDown(_) => 5,
        Timer::PeriodicAnnounceDown(_) => 6,
    }
}
