//! The harness's BroadcastHandler: total, configurable, and it logs every call so
//! oracles know exactly what the handler decided (no hook needed for that).
use crate::ident::Id;
use foca::{BroadcastHandler, Invalidates};
use serde::{Deserialize, Serialize};
use std::collections::BTreeMap;

#[derive(Clone, Copy, Debug, PartialEq, Eq, Serialize, Deserialize, Hash)]
pub enum Inval {
    SameKeyHigherVersion,
    SameKeyAny,
    Never,
    Everything,
}
#[derive(Clone, Copy, Debug, PartialEq, Eq, Serialize, Deserialize, Hash)]
pub enum Accept {
    NewVersionOnly,
    Always,
    Never,
}

#[derive(Clone, Copy, Debug, PartialEq, Eq, Serialize, Deserialize)]
pub struct HandlerSpec {
    /// false: behaves like NoCustomBroadcast (every item is an error)
    pub enabled: bool,
    pub inval: Inval,
    pub accept: Accept,
    /// bit i set => should_add_broadcast_data(addr i) is true (addresses >= 32 use bit addr%32)
    pub recipients: u32,
    /// true: an empty slice is an item like any other (key 0xFE, version 0); false: it is an error.
    /// Foca itself must never hand the handler an empty item nor put one on the wire.
    #[serde(default)]
    pub accept_empty: bool,
}

impl HandlerSpec {
    pub const OFF: HandlerSpec =
        HandlerSpec { enabled: false, inval: Inval::SameKeyAny, accept: Accept::Always, recipients: u32::MAX, accept_empty: false };
    pub const SIMPLE: HandlerSpec =
        HandlerSpec { enabled: true, inval: Inval::SameKeyHigherVersion, accept: Accept::NewVersionOnly, recipients: u32::MAX, accept_empty: false };
}

#[derive(Clone, Debug)]
pub struct Key {
    pub key: u8,
    pub version: u8,
    pub inval: Inval,
}

impl Invalidates for Key {
    fn invalidates(&self, other: &Self) -> bool {
        match self.inval {
            Inval::SameKeyHigherVersion => self.key == other.key && self.version > other.version,
            Inval::SameKeyAny => self.key == other.key,
            Inval::Never => false,
            Inval::Everything => true,
        }
    }
}

#[derive(Debug, Clone)]
pub struct HErr(pub &'static str);
impl std::fmt::Display for HErr {
    fn fmt(&self, f: &mut std::fmt::Formatter<'_>) -> std::fmt::Result {
        f.write_str(self.0)
    }
}
impl std::error::Error for HErr {}

#[derive(Clone, Debug, PartialEq, Eq)]
pub struct RecvCall {
    pub data: Vec<u8>,
    pub sender: Option<Id>,
    /// Some(true) accepted, Some(false) declined, None error
    pub outcome: Option<bool>,
}

#[derive(Debug)]
pub struct Handler {
    pub spec: HandlerSpec,
    pub seen: BTreeMap<u8, u8>,
    pub log: Vec<RecvCall>,
}

impl Handler {
    pub fn new(spec: HandlerSpec) -> Self {
        Handler { spec, seen: BTreeMap::new(), log: Vec::new() }
    }
    pub fn key_of(data: &[u8], inval: Inval) -> Key {
        if data.is_empty() {
            return Key { key: 0xFE, version: 0, inval };
        }
        Key { key: data[0], version: if data.len() > 1 { data[1] } else { 0 }, inval }
    }
    pub fn allows(spec: &HandlerSpec, id: &Id) -> bool {
        spec.recipients & (1u32 << (id.addr % 32)) != 0
    }
}

impl BroadcastHandler<Id> for Handler {
    type Key = Key;
    type Error = HErr;

    fn receive_item(&mut self, data: &[u8], sender: Option<&Id>) -> Result<Option<Key>, HErr> {
        let mut call = RecvCall { data: data.to_vec(), sender: sender.copied(), outcome: None };
        if !self.spec.enabled {
            self.log.push(call);
            return Err(HErr("broadcasts disabled"));
        }
        if (data.is_empty() && !self.spec.accept_empty) || data.first() == Some(&0xFF) {
            self.log.push(call);
            return Err(HErr("bad item"));
        }
        let k = Self::key_of(data, self.spec.inval);
        let accept = match self.spec.accept {
            Accept::Always => true,
            Accept::Never => false,
            Accept::NewVersionOnly => match self.seen.get(&k.key) {
                Some(v) => k.version > *v,
                None => true,
            },
        };
        if accept {
            let e = self.seen.entry(k.key).or_insert(k.version);
            if k.version > *e {
                *e = k.version;
            }
        }
        call.outcome = Some(accept);
        self.log.push(call);
        Ok(if accept { Some(k) } else { None })
    }

    fn should_add_broadcast_data(&self, member: &Id) -> bool {
        Handler::allows(&self.spec, member)
    }
}
