use foca_verif::engine::*;
use foca_verif::props;
use std::path::PathBuf;

fn usage() -> ! {
    eprintln!("usage: vcheck <ID> quick|thorough | vcheck <ID> --replay <file> | vcheck --list");
    std::process::exit(2)
}

fn main() {
    let args: Vec<String> = std::env::args().skip(1).collect();
    if args.first().map(|s| s.as_str()) == Some("--list") {
        for p in props::all() {
            println!("{}", p.id);
        }
        return;
    }
    if args.first().map(|s| s.as_str()) == Some("--gen-corpus") {
        for (target, name, bytes) in foca_verif::fuzzing::gen_corpus() {
            let dir = verif_root().join("corpus").join(target);
            let _ = std::fs::create_dir_all(&dir);
            std::fs::write(dir.join(name), bytes).expect("write corpus file");
        }
        return;
    }
    if args.len() < 2 {
        usage();
    }
    foca_verif::inst::install_quiet_panic_hook();
    let defs = props::all();
    let Some(def) = defs.iter().find(|d| d.id == args[0]) else {
        eprintln!("unknown property {}", args[0]);
        std::process::exit(2)
    };
    if args[1] == "--replay" {
        let Some(path) = args.get(2) else { usage() };
        let rf = read_replay(&PathBuf::from(path));
        match (def.replay)(&rf.part, &rf.case) {
            None => {
                eprintln!("replay file names unknown part {:?} for {}", rf.part, def.id);
                std::process::exit(2)
            }
            Some(Ok(())) => {
                println!("replay {}: property {} holds on this case", path, def.id);
                std::process::exit(0)
            }
            Some(Err(f)) => {
                println!("replay {}: {} [{}]\n{}", path, def.id, f.signature, f.message);
                println!("VIOLATION property={} replay={}", def.id, path);
                std::process::exit(1)
            }
        }
    }
    let tier = match args[1].as_str() {
        "quick" => Tier::Quick,
        "thorough" => Tier::Thorough,
        _ => usage(),
    };
    let mut seed: u64 = std::env::var("VERIF_SEED").ok().and_then(|s| s.trim().parse().ok()).unwrap_or(1);
    if seed == 0 {
        seed = 0x5eed_0000_0001;
    }
    let threads = std::env::var("VERIF_THREADS")
        .ok()
        .and_then(|s| s.parse().ok())
        .unwrap_or_else(|| std::thread::available_parallelism().map(|n| n.get()).unwrap_or(8));
    let known: Vec<KnownEntry> = load_known().findings.into_iter().filter(|k| k.property == def.id).collect();
    let ctx = Ctx { id: def.id, tier, seed, threads, known, started: std::time::Instant::now() };
    let mut report = Report::default();
    let mut printed_known: Vec<String> = Vec::new();
    let mut violation_lines: Vec<String> = Vec::new();

    // regression tier: committed minimal replays of every known / fixed finding
    let mut regressions = Vec::new();
    for k in &ctx.known {
        let Some(rp) = &k.replay else { continue };
        let path = verif_root().join(rp);
        let rf = read_replay(&path);
        let res = (def.replay)(&rf.part, &rf.case);
        let outcome = match (&res, k.status.as_str()) {
            (Some(Err(f)), "known") if f.signature == k.signature => {
                println!("KNOWN-FINDING: property={} {} [{}] (replay {})", def.id, k.what, k.signature, rp);
                printed_known.push(k.signature.clone());
                "known finding reproduces"
            }
            (Some(Err(f)), "known") => {
                // a different failure on the known finding's input is not the listed finding
                let mut rf2 = rf.clone();
                rf2.signature = f.signature.clone();
                rf2.message = format!("known finding's input now fails differently: {}", f.message);
                report.violations.push((rf2, path.clone()));
                "known finding's input now fails differently"
            }
            (Some(Ok(())), "known") => {
                eprintln!("note: known finding {} no longer reproduces on this tree", k.signature);
                "known finding no longer reproduces"
            }
            (Some(Ok(())), _) => "fixed finding stays fixed",
            (Some(Err(f)), _) => {
                let mut rf2 = rf.clone();
                rf2.signature = f.signature.clone();
                rf2.message = format!("regression of fixed finding {}: {}", k.signature, f.message);
                report.violations.push((rf2, path.clone()));
                "FIXED FINDING REGRESSED"
            }
            (None, _) => {
                eprintln!("finding replay {} names unknown part", rp);
                std::process::exit(2)
            }
        };
        regressions.push(serde_json::json!({"signature": k.signature, "status": k.status, "replay": rp, "outcome": outcome}));
    }
    report.extra.insert("finding_replays".into(), serde_json::json!(regressions));

    let meta = (def.run)(&ctx, &mut report);

    for (sig, n) in &report.known_seen {
        if !printed_known.contains(sig) {
            if let Some(k) = ctx.known.iter().find(|k| &k.signature == sig) {
                println!("KNOWN-FINDING: property={} {} [{}] ({} generated cases)", def.id, k.what, sig, n);
            }
        }
    }
    for (rf, path) in &report.violations {
        println!("--- {} part={} signature={}\n{}", rf.property, rf.part, rf.signature, rf.message);
        violation_lines.push(format!("VIOLATION property={} replay={}", def.id, path.display()));
    }
    write_evidence(&ctx, &report, &meta, violation_lines.len());
    println!(
        "{} {} seed={} evaluations={} sub_evaluations={} distinct_nontrivial={} excluded_known={} wall={:.1}s",
        def.id,
        tier.name(),
        seed,
        report.evaluations,
        report.sub_evaluations,
        report.nontrivial.len(),
        report.excluded_known,
        ctx.started.elapsed().as_secs_f64()
    );
    if violation_lines.is_empty() {
        std::process::exit(0)
    }
    for l in &violation_lines {
        println!("{}", l);
    }
    std::process::exit(1)
}
