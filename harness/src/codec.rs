//! Total codecs for the harness identity: hand-written fixed- and variable-length
//! forms plus the two bundled serde codecs, behind one runtime-selected enum.
use crate::ident::Id;
use bytes::{Buf, BufMut};
use foca::{BincodeCodec, Codec, Header, Member, Message, PostcardCodec, State};
use serde::{Deserialize, Serialize};

#[derive(Debug, Clone)]
pub struct CErr(pub String);
impl std::fmt::Display for CErr {
    fn fmt(&self, f: &mut std::fmt::Formatter<'_>) -> std::fmt::Result {
        f.write_str(&self.0)
    }
}
impl std::error::Error for CErr {}
fn cerr<T>(s: &str) -> Result<T, CErr> {
    Err(CErr(s.to_string()))
}

#[derive(Clone, Copy, Debug, PartialEq, Eq, Serialize, Deserialize, Hash)]
pub enum CodecKind {
    Fix,
    Var,
    Postcard,
    Bincode,
}

pub const ALL_CODECS: [CodecKind; 4] = [CodecKind::Fix, CodecKind::Var, CodecKind::Postcard, CodecKind::Bincode];

pub type BinCfg = bincode::config::Configuration<
    bincode::config::LittleEndian,
    bincode::config::Varint,
    bincode::config::Limit<65536>,
>;
pub fn bincfg() -> BinCfg {
    bincode::config::standard().with_limit::<65536>()
}

#[derive(Clone, Copy, Debug)]
pub struct AnyCodec(pub CodecKind);

pub fn var_pad(id: &Id) -> usize {
    ((id.addr as usize) * 5 + (id.gen as usize) * 3) % 7
}

impl AnyCodec {
    pub fn id_len(&self, id: &Id) -> usize {
        match self.0 {
            CodecKind::Fix => 4,
            CodecKind::Var => 5 + var_pad(id),
            _ => {
                let mut v = Vec::new();
                let _ = self.clone().encode_member(&Member::new(*id, 0, State::Alive), &mut v);
                v.len().saturating_sub(2)
            }
        }
    }
    fn put_id(&self, id: &Id, b: &mut impl BufMut) {
        b.put_u16(id.addr);
        b.put_u16(id.gen);
        if self.0 == CodecKind::Var {
            let n = var_pad(id);
            b.put_u8(n as u8);
            for i in 0..n {
                b.put_u8(0xA0 + i as u8);
            }
        }
    }
    fn get_id(&self, b: &mut impl Buf) -> Result<Id, CErr> {
        if b.remaining() < 4 {
            return cerr("id: short");
        }
        let addr = b.get_u16();
        let gen = b.get_u16();
        let id = Id::new(addr, gen);
        if self.0 == CodecKind::Var {
            if b.remaining() < 1 {
                return cerr("id: short pad len");
            }
            let n = b.get_u8() as usize;
            if n != var_pad(&id) {
                return cerr("id: bad pad len");
            }
            if b.remaining() < n {
                return cerr("id: short pad");
            }
            b.advance(n);
        }
        Ok(id)
    }
    fn hdr_len(&self, h: &Header<Id>) -> usize {
        let base = self.id_len(&h.src) + 2 + self.id_len(&h.dst) + 1;
        base + match &h.message {
            Message::Ping(_) | Message::Ack(_) => 1,
            Message::PingReq { target: t, .. }
            | Message::IndirectPing { origin: t, .. }
            | Message::IndirectAck { target: t, .. }
            | Message::ForwardedAck { origin: t, .. } => 1 + self.id_len(t),
            _ => 0,
        }
    }
}

fn state_byte(s: State) -> u8 {
    match s {
        State::Alive => 0,
        State::Suspect => 1,
        State::Down => 2,
    }
}

impl Codec<Id> for AnyCodec {
    type Error = CErr;

    fn encode_header(&mut self, h: &Header<Id>, mut b: impl BufMut) -> Result<(), CErr> {
        match self.0 {
            CodecKind::Postcard => PostcardCodec.encode_header(h, b).map_err(|e| CErr(format!("postcard: {e}"))),
            CodecKind::Bincode => BincodeCodec(bincfg()).encode_header(h, b).map_err(|e| CErr(format!("bincode: {e}"))),
            _ => {
                if b.remaining_mut() < self.hdr_len(h) {
                    return cerr("header: no space");
                }
                self.put_id(&h.src, &mut b);
                b.put_u16(h.src_incarnation);
                self.put_id(&h.dst, &mut b);
                match &h.message {
                    Message::Ping(n) => {
                        b.put_u8(0);
                        b.put_u8(*n);
                    }
                    Message::Ack(n) => {
                        b.put_u8(1);
                        b.put_u8(*n);
                    }
                    Message::PingReq { target, probe_number } => {
                        b.put_u8(2);
                        self.put_id(target, &mut b);
                        b.put_u8(*probe_number);
                    }
                    Message::IndirectPing { origin, probe_number } => {
                        b.put_u8(3);
                        self.put_id(origin, &mut b);
                        b.put_u8(*probe_number);
                    }
                    Message::IndirectAck { target, probe_number } => {
                        b.put_u8(4);
                        self.put_id(target, &mut b);
                        b.put_u8(*probe_number);
                    }
                    Message::ForwardedAck { origin, probe_number } => {
                        b.put_u8(5);
                        self.put_id(origin, &mut b);
                        b.put_u8(*probe_number);
                    }
                    Message::Announce => b.put_u8(6),
                    Message::Feed => b.put_u8(7),
                    Message::Gossip => b.put_u8(8),
                    Message::Broadcast => b.put_u8(9),
                    Message::TurnUndead => b.put_u8(10),
                }
                Ok(())
            }
        }
    }

    fn decode_header(&mut self, mut b: impl Buf) -> Result<Header<Id>, CErr> {
        match self.0 {
            CodecKind::Postcard => PostcardCodec.decode_header(b).map_err(|e| CErr(format!("postcard: {e}"))),
            CodecKind::Bincode => BincodeCodec(bincfg()).decode_header(b).map_err(|e| CErr(format!("bincode: {e}"))),
            _ => {
                let src = self.get_id(&mut b)?;
                if b.remaining() < 2 {
                    return cerr("header: short inc");
                }
                let src_incarnation = b.get_u16();
                let dst = self.get_id(&mut b)?;
                if b.remaining() < 1 {
                    return cerr("header: short tag");
                }
                let tag = b.get_u8();
                let message = match tag {
                    0 | 1 => {
                        if b.remaining() < 1 {
                            return cerr("header: short probeno");
                        }
                        let n = b.get_u8();
                        if tag == 0 {
                            Message::Ping(n)
                        } else {
                            Message::Ack(n)
                        }
                    }
                    2..=5 => {
                        let id = self.get_id(&mut b)?;
                        if b.remaining() < 1 {
                            return cerr("header: short probeno");
                        }
                        let probe_number = b.get_u8();
                        match tag {
                            2 => Message::PingReq { target: id, probe_number },
                            3 => Message::IndirectPing { origin: id, probe_number },
                            4 => Message::IndirectAck { target: id, probe_number },
                            _ => Message::ForwardedAck { origin: id, probe_number },
                        }
                    }
                    6 => Message::Announce,
                    7 => Message::Feed,
                    8 => Message::Gossip,
                    9 => Message::Broadcast,
                    10 => Message::TurnUndead,
                    _ => return cerr("header: bad tag"),
                };
                Ok(Header { src, src_incarnation, dst, message })
            }
        }
    }

    fn encode_member(&mut self, m: &Member<Id>, mut b: impl BufMut) -> Result<(), CErr> {
        match self.0 {
            CodecKind::Postcard => {
                // the bundled codec may leave a partial write behind on failure; Foca truncates
                PostcardCodec.encode_member(m, b).map_err(|e| CErr(format!("postcard: {e}")))
            }
            CodecKind::Bincode => BincodeCodec(bincfg()).encode_member(m, b).map_err(|e| CErr(format!("bincode: {e}"))),
            _ => {
                if b.remaining_mut() < self.id_len(m.id()) + 3 {
                    return cerr("member: no space");
                }
                self.put_id(m.id(), &mut b);
                b.put_u16(m.incarnation());
                b.put_u8(state_byte(m.state()));
                Ok(())
            }
        }
    }

    fn decode_member(&mut self, mut b: impl Buf) -> Result<Member<Id>, CErr> {
        match self.0 {
            CodecKind::Postcard => PostcardCodec.decode_member(b).map_err(|e| CErr(format!("postcard: {e}"))),
            CodecKind::Bincode => BincodeCodec(bincfg()).decode_member(b).map_err(|e| CErr(format!("bincode: {e}"))),
            _ => {
                let id = self.get_id(&mut b)?;
                if b.remaining() < 3 {
                    return cerr("member: short");
                }
                let inc = b.get_u16();
                let st = match b.get_u8() {
                    0 => State::Alive,
                    1 => State::Suspect,
                    2 => State::Down,
                    _ => return cerr("member: bad state"),
                };
                Ok(Member::new(id, inc, st))
            }
        }
    }
}

/// Convenience: encode a member to bytes with the given codec.
pub fn member_bytes(kind: CodecKind, m: &Member<Id>) -> Vec<u8> {
    let mut v = Vec::new();
    AnyCodec(kind).encode_member(m, &mut v).expect("encode member into Vec");
    v
}

pub fn header_bytes(kind: CodecKind, h: &Header<Id>) -> Vec<u8> {
    let mut v = Vec::new();
    AnyCodec(kind).encode_header(h, &mut v).expect("encode header into Vec");
    v
}
