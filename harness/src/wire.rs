//! Independent datagram grammar parser, written from the grammar in payload.rs's doc
//! comment (header ‖ [u16 count ‖ count × member] ‖ {u16 len ‖ len bytes}*), not from
//! Foca's receive path. Only the (user-supplied) codec is shared.
use crate::codec::{AnyCodec, CodecKind};
use crate::ident::Id;
use foca::{Codec, Header, Member, Message};

#[derive(Clone, Debug)]
pub struct Dgram {
    pub header: Header<Id>,
    pub header_len: usize,
    /// None: no member section at all (kinds that never have one, or a piggybacking kind
    /// that carries nothing after the header)
    pub members: Option<Vec<Member<Id>>>,
    /// raw bytes of each member entry, parallel to `members`
    pub member_bytes: Vec<Vec<u8>>,
    /// offset just past the member section
    pub members_end: usize,
    pub items: Vec<Vec<u8>>,
    pub len: usize,
}

pub fn kind_name(m: &Message<Id>) -> &'static str {
    match m {
        Message::Ping(_) => "Ping",
        Message::Ack(_) => "Ack",
        Message::PingReq { .. } => "PingReq",
        Message::IndirectPing { .. } => "IndirectPing",
        Message::IndirectAck { .. } => "IndirectAck",
        Message::ForwardedAck { .. } => "ForwardedAck",
        Message::Announce => "Announce",
        Message::Feed => "Feed",
        Message::Gossip => "Gossip",
        Message::Broadcast => "Broadcast",
        Message::TurnUndead => "TurnUndead",
    }
}

pub const KINDS: [&str; 11] = [
    "Ping", "Ack", "PingReq", "IndirectPing", "IndirectAck", "ForwardedAck", "Announce", "Feed", "Gossip",
    "Broadcast", "TurnUndead",
];

/// kinds that carry a member section (count + members)
pub fn piggybacks(m: &Message<Id>) -> bool {
    !matches!(m, Message::Announce | Message::TurnUndead | Message::Broadcast)
}
/// kinds that may carry custom broadcast items
pub fn may_carry_items(m: &Message<Id>) -> bool {
    !matches!(m, Message::Announce | Message::TurnUndead)
}

pub fn parse(bytes: &[u8], codec: CodecKind) -> Result<Dgram, String> {
    let mut c = AnyCodec(codec);
    let mut cur: &[u8] = bytes;
    let header = c.decode_header(&mut cur).map_err(|e| format!("header does not decode: {e}"))?;
    let header_len = bytes.len() - cur.len();
    let mut members = None;
    let mut member_bytes = Vec::new();
    match header.message {
        Message::Announce | Message::TurnUndead => {
            if !cur.is_empty() {
                return Err(format!("{} carries {} bytes after the header", kind_name(&header.message), cur.len()));
            }
        }
        Message::Broadcast => {}
        _ => {
            if !cur.is_empty() {
                if cur.len() < 2 {
                    return Err("single stray byte where the member count should be".into());
                }
                let count = u16::from_be_bytes([cur[0], cur[1]]) as usize;
                cur = &cur[2..];
                let mut v = Vec::with_capacity(count);
                for i in 0..count {
                    let before = cur;
                    let m = c
                        .decode_member(&mut cur)
                        .map_err(|e| format!("member {i} of {count} does not decode: {e}"))?;
                    member_bytes.push(before[..before.len() - cur.len()].to_vec());
                    v.push(m);
                }
                members = Some(v);
            }
        }
    }
    let members_end = bytes.len() - cur.len();
    let mut items = Vec::new();
    while !cur.is_empty() {
        if cur.len() < 3 {
            return Err(format!("{} trailing byte(s) that cannot form an item", cur.len()));
        }
        let n = u16::from_be_bytes([cur[0], cur[1]]) as usize;
        cur = &cur[2..];
        if n == 0 {
            return Err("zero-length custom broadcast item".into());
        }
        if cur.len() < n {
            return Err(format!("item of declared length {n} overruns the datagram ({} left)", cur.len()));
        }
        items.push(cur[..n].to_vec());
        cur = &cur[n..];
    }
    Ok(Dgram { header, header_len, members, member_bytes, members_end, items, len: bytes.len() })
}

pub fn render(bytes: &[u8], codec: CodecKind) -> String {
    match parse(bytes, codec) {
        Ok(d) => {
            let h = &d.header;
            let mut s = format!("[{}→{} inc={} {:?}", h.src, h.dst, h.src_incarnation, h.message);
            if let Some(ms) = &d.members {
                s.push_str(" members=[");
                for (i, m) in ms.iter().enumerate() {
                    if i > 0 {
                        s.push(' ');
                    }
                    if i >= 8 {
                        s.push_str(&format!("…+{}", ms.len() - 8));
                        break;
                    }
                    s.push_str(&format!("{}:{}:{:?}", m.id(), m.incarnation(), m.state()));
                }
                s.push(']');
            }
            if !d.items.is_empty() {
                s.push_str(&format!(" items={:?}", d.items.iter().map(|i| i.len()).collect::<Vec<_>>()));
            }
            s.push_str(&format!(" len={}]", d.len));
            s
        }
        Err(e) => format!("[unparseable {} bytes: {} | {}]", bytes.len(), e, hex(bytes)),
    }
}

pub fn hex(b: &[u8]) -> String {
    let mut s = String::with_capacity(b.len() * 2);
    for (i, x) in b.iter().enumerate() {
        if i >= 64 {
            s.push('…');
            break;
        }
        s.push_str(&format!("{:02x}", x));
    }
    s
}

/// Builds a datagram from structured parts with the codec under test (used by generators).
pub fn build(codec: CodecKind, header: &Header<Id>, members: Option<&[Member<Id>]>, items: &[Vec<u8>]) -> Vec<u8> {
    let mut c = AnyCodec(codec);
    let mut out = Vec::new();
    c.encode_header(header, &mut out).expect("header into Vec");
    if let Some(ms) = members {
        out.extend_from_slice(&(ms.len() as u16).to_be_bytes());
        for m in ms {
            c.encode_member(m, &mut out).expect("member into Vec");
        }
    }
    for it in items {
        out.extend_from_slice(&(it.len() as u16).to_be_bytes());
        out.extend_from_slice(it);
    }
    out
}

pub fn header_bytes_len(codec: CodecKind, header: &Header<Id>) -> usize {
    crate::codec::header_bytes(codec, header).len()
}
