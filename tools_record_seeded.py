#!/usr/bin/env python3
"""usage: tools_record_seeded.py <eval-log> ...   -> writes /verif/seeded/<name>/{patch.diff,demo.diff,REPORT.md,meta.json}"""
import json, re, shutil, sys, os
NEEDS = json.load(open('/verif/seeded/needs.json')) if os.path.exists('/verif/seeded/needs.json') else {}
for log in sys.argv[1:]:
    txt = open(log).read()
    for block in re.split(r'^=== mutant ', txt, flags=re.M)[1:]:
        name = block.split('\n',1)[0].strip()
        src = f'/tmp/wt/{name}'
        out_name = name[2:] + '-r' + name[1] if name[0] == 'R' else name
        if not os.path.exists(f'{src}/mutant.diff'): continue
        pr = re.search(r'pristine\+demo:\s*(.*)', block); mu = re.search(r'mutant\+demo:\s*(.*)', block)
        demos = re.search(r'demo tests:\s*(.*)', block)
        failing = re.search(r'failing tests:\s*(.*)', block)
        checks = re.findall(r'CHECK (C\d+) rc=(\d+) ?(.*)', block)
        killed = [c for c,rc,_ in checks if rc=='1']
        inconclusive = [c for c,rc,_ in checks if rc not in ('0','1')]
        confirmed = bool(pr and ' 0 failed' in pr.group(1) and mu and '79 passed' in mu.group(1) and 'FAILED' in mu.group(1))
        d = f'/verif/seeded/{out_name}'; os.makedirs(d, exist_ok=True)
        shutil.copy(f'{src}/mutant.diff', f'{d}/patch.diff'); shutil.copy(f'{src}/demo.diff', f'{d}/demo.diff')
        if os.path.exists(f'{src}/REPORT.md'): shutil.copy(f'{src}/REPORT.md', f'{d}/REPORT.md')
        prop = re.search(r'(C\d+)', name).group(1)
        meta = {
          "breaks_property": prop,
          "written_by": "independent sub-agent given only the property record and a scratch worktree of /repo (nothing from /verif)",
          "needs_to_manifest": NEEDS.get(out_name, ""),
          "demonstration": {"file": "demo.diff", "tests": demos.group(1).split() if demos else []},
          "confirmed_in_scratch_worktree": {
             "pristine_plus_demo": pr.group(1) if pr else None,
             "mutant_plus_demo": mu.group(1) if mu else None,
             "failing_with_mutant": failing.group(1)[:400] if failing else None,
             "confirmed": confirmed},
          "what_was_run": ["git -C <scratch worktree> apply demo.diff && cargo test --offline   (demo passes, suite passes)",
                           "git -C <scratch worktree> apply patch.diff && cargo test --offline  (79 original tests pass, demo fails)",
                           "git -C /repo apply patch.diff && ./check <ID> quick for every ID && git -C /repo checkout -- ."],
          "quick_checks_that_report_a_violation": killed,
          "signatures": {c: s.strip() for c,rc,s in checks if rc=='1'},
          "inconclusive": inconclusive,
          "target_property_check_catches_it": prop in killed,
        }
        json.dump(meta, open(f'{d}/meta.json','w'), indent=1)
        print(out_name, 'confirmed' if confirmed else 'NOT CONFIRMED', 'killed by', killed)
