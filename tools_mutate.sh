#!/bin/bash
# usage: tools_mutate.sh <file-in-repo> <python-replace-old> <python-replace-new> <ID>...
# applies a textual mutation to /repo (working tree only), runs the listed quick checks, restores the tree.
set -u
f="$1"; old="$2"; new="$3"; shift 3
python3 - "$f" "$old" "$new" <<'PY' || exit 3
import sys
p='/repo/'+sys.argv[1]; s=open(p).read()
if s.count(sys.argv[2])<1: print("pattern not found"); sys.exit(1)
s=s.replace(sys.argv[2],sys.argv[3],1); open(p,'w').write(s)
PY
for id in "$@"; do
  out=$(/verif/check "$id" quick 2>&1); rc=$?
  echo "$id rc=$rc $(echo "$out" | grep -E 'signature=' | head -2 | tr '\n' ' ')"
done
git -C /repo checkout -- .
