#!/usr/bin/env python3
"""Regenerates MANIFEST.json from the table below (single source of truth for the interface)."""
import json, subprocess, sys
props = [json.loads(l) for l in open('/verif/properties.jsonl')]
ids = [p['id'] for p in props]

# id -> (category, technique, level text, level note, design ref); only built checks are listed
CHECKS = {
 "C12": ("exploration",
   "property-based testing: proptest-generated probe rounds with near-miss evidence against a round ledger built from observations, plus an enumerated 4-instance relay chain with every hop lost in turn",
   "Random search with shrinking over the inputs placed around the two probe timers; the ledger restates the statement's evidence rule and is compared with the instance's behaviour at the next round and with its private probe state after every call.",
   "Probe timers are delivered in deadline order; acceptance of datagrams is classified structurally; private probe state read via the hook snapshot as a cross-check.",
   "DESIGN.md §4 C12"),
 "C01": ("exploration",
   "property-based testing: model-based (reference lattice join) check over bounded-exhaustive update sequences, proptest multisets with generated permutation/duplication/split plans, and two-instance state exchange",
   "Every update sequence up to length 4 (quick) / 5 (thorough) over the 18-letter single-address alphabet is enumerated completely; larger multisets, several addresses, own-address generations and state exchange are sampled with shrinking. Outside the enumerated sub-space the evidence is bounded by the reported counts.",
   "Trusts the 30-line lattice model as the statement's reading of SWIM precedence; harness identity order total per address.",
   "DESIGN.md §4 C01"),
 "C07": ("exploration",
   "property-based testing: independent wire-grammar parser + peer-acceptance differential over every datagram of a byte-by-byte packet-size sweep (4 codecs) and of proptest histories with preloaded backlogs",
   "The free space behind the header is swept one byte at a time for every message kind, 5 backlog loads and 4 codecs; random histories add arbitrary backlog contents and packet sizes to 64 KiB.",
   "The parser shares only the (user-supplied) codec with Foca; sender incarnation read via the hook snapshot.",
   "DESIGN.md §4 C07"),
 "C14": ("exploration",
   "property-based testing: complete enumeration of small member layouts x 256 RNG seeds, proptest larger layouts with generated prefixes, sliding-window oracle over observed Ping destinations",
   "All arrangements with n+d<=5, 256 seeds and 0..3 warm-up rounds are enumerated completely; n up to 12 (quick) / 20 (thorough) with random prefixes are sampled.",
   "Membership stability is enforced by the harness answering every Ping correctly.",
   "DESIGN.md §4 C14"),
 "C15": ("exploration",
   "property-based testing: model-based accountant (address -> bytes, transmissions left) over proptest histories, driven by the hook's ordered accept/send log and compared with the real backlog after every call",
   "Random search with shrinking over histories at packet sizes where single updates barely fit; the accountant restates the statement and is compared with the backlog's real contents after every call.",
   "Relies on the verif-hooks event log for which updates Foca accepted and on the snapshot for transmissions left.",
   "DESIGN.md §4 C15"),
 "C16": ("exploration",
   "property-based testing: model-based accountant keyed by the harness handler's own decisions, receiver-side differential with a peer instance, over proptest histories with generated handlers",
   "Random search with shrinking over handlers (4 invalidation relations x 3 acceptance rules x recipient subsets), item sizes and packet sizes; every datagram with items is replayed into a peer.",
   "The handler is the harness's own; hook queue log only cross-checked.",
   "DESIGN.md §4 C16"),
 "C06": ("exploration",
   "property-based testing / fuzzing: proptest-generated API+datagram+timer sequences on two wired instances under catch_unwind, in a release build and in a debug-assertions+overflow-checks build; scripted boundary-size scenarios; enumerative sweep of the Config constructors",
   "Random search with shrinking (30k sequences x 2 build regimes quick, 1.5M x 2 thorough) over the full operation alphabet incl. crafted timers, corrupted bytes and reconfiguration; scripted scenarios at the u16 / packet-size boundaries; the constructors are swept completely (all 2^32-1 values) in the thorough tier. Absence of a panic elsewhere is bounded by the reported counts.",
   "User-supplied components are the harness's total codec/runtime/handler/identity plus the bundled postcard and limited-bincode codecs; allocation failure out of scope.",
   "DESIGN.md §4 C06"),
 "C11": ("exploration",
   "property-based testing: complete enumeration of a timeout case table (every cell reached through real API calls) + proptest random histories, judged by an iff oracle on the record observed before the timer fires",
   "The case table (17 intervening events x notify_down x bystander x duplicate x renewable x incarnation x codec x seed = 13056 cells) is enumerated completely; random histories add interleavings the table does not name. Outside the table the evidence is bounded by the reported counts.",
   "Trusts the harness components; Down-update queuing is observed through the verif-hooks event log.",
   "DESIGN.md §4 C11"),
 "C13": ("exploration",
   "property-based testing: proptest-generated timer delivery orders (deadline order and arbitrary order, each timer delivered at most once) against a timer ledger and a notification-inferred epoch counter",
   "Random search with shrinking over histories in which the harness itself is the timer runtime; the outstanding-timer invariant is evaluated after every call.",
   "Token read through the verif-hooks snapshot and compared with the independently inferred epoch; fewer than 256 epoch changes per history.",
   "DESIGN.md §4 C13"),
 "C17": ("exploration",
   "property-based testing: metamorphic twin runs (base history vs base history with structurally-rejected inputs inserted; same history twice for determinism) generated by proptest",
   "Random search with shrinking over base histories x insertion points x 13 classes of rejected input; the metamorphic relation is equality of every effect and of the observable state of all base calls.",
   "Rejected classes are decided by the harness's own structural classifier, never by Foca's result; malformed custom-broadcast tails are outside the statement and never inserted.",
   "DESIGN.md §4 C17"),
 "C08": ("exploration",
   "property-based testing: bounded-exhaustive enumeration of short histories + proptest random histories against a notification-mirror / connection-state-machine model; differential run against AccumulatingRuntime",
   "All histories to depth 5 (quick) / 6 (thorough) over a 20-op reduced alphabet are enumerated completely; random histories of up to 150 calls and a lock-step differential against AccumulatingRuntime go far beyond that depth. Outside the enumerated sub-space the evidence is bounded by the reported counts.",
   "Trusts the harness identity/codec/runtime/handler; the connection state cross-check reads the verif-hooks snapshot.",
   "DESIGN.md §4 C08"),
 "C09": ("exploration",
   "property-based testing: proptest-generated single-instance histories with multi-generation identities against per-call membership-state invariants",
   "Random search with shrinking over histories with 5 generations per address (own address included); invariants evaluated after every call on iter_membership_state(), notifications and sends.",
   "Trusts the harness components; change_identity restricted to its documented use (own address).",
   "DESIGN.md §4 C09"),
 "C10": ("exploration",
   "property-based testing: proptest-generated self-update-biased histories against an incarnation ledger (hook snapshot + outgoing headers) and a told-incarnation bound",
   "Random search with shrinking; the ledger re-states the statement's rule (max(own,suspected)+1 for suspicions >= own) and compares it with the real incarnation after every call and with every outgoing header.",
   "Own incarnation at call boundaries is read through the verif-hooks snapshot; acceptance of datagrams is classified structurally.",
   "DESIGN.md §4 C10"),
 "C19": ("exploration",
   "property-based testing: proptest-generated single-instance API/datagram/timer histories against a destination-address invariant",
   "Random search with shrinking over single-instance histories (30k quick / 2M thorough) that contain the instance's own older and newer identities; every send_to destination is compared with the identity held at the time of the send. Evidence bounded by the reported counts, not a proof.",
   "Trusts the harness identity/codec/runtime (total, non-panicking); identity at send time is derived from the identity chain of the call.",
   "DESIGN.md §4 C19"),
}
NOT_BUILT_REASON = "check not built yet in this revision (planned: see DESIGN.md section 4); no claim is made"

hooks_commits = subprocess.run(['git','-C','/repo','log','--format=%H','--grep=verif-hooks'],capture_output=True,text=True).stdout.split()
m = {
 "version": 1,
 "setup_cmd": "./check --setup",
 "hooks": {
   "guard": "cargo feature verif-hooks (foca/Cargo.toml [features]; off by default)",
   "enable": "the harness depends on foca = { path = \"/repo\", features = [\"std\", \"bincode-codec\", \"postcard-codec\", \"verif-hooks\"] } and every ./check rebuilds it from /repo's working tree",
   "baseline_off_cmd": "cd /repo && cargo test --workspace --no-fail-fast --offline",
   "source_commits": hooks_commits,
   "add_only": True,
 },
 "engines": [
   {"name": "vcheck", "path": "harness/", "serves_properties": sorted(CHECKS.keys()),
    "kind_free_text": "Rust harness crate (lib + bin vcheck): proptest TestRunner shards, bounded enumerators, deterministic cluster simulator, independent wire parser, reference models; ./check <ID> quick|thorough|--replay"},
 ],
 "checks": [],
 "notes": "Exit codes: 0 held, 1 VIOLATION (line printed, replay file under replays/), 2 inconclusive (build/infra). Known and fixed findings: known_findings.json + findings/*.json (replayed on every run).",
 "not_applicable": [],
}
for i in ids:
    if i in CHECKS:
        cat, tech, text, note, ref = CHECKS[i]
        m["checks"].append({
          "property_id": i,
          "quick_cmd": f"./check {i} quick",
          "thorough_cmd": f"./check {i} thorough",
          "evidence_file": f"/verif/evidence/{i}.json",
          "replay_cmd_template": f"./check {i} --replay {{path}}",
          "engine": "vcheck",
          "level_claimed": {"category": cat, "text": text, "design_ref": ref},
          "level_note": note,
          "technique": tech,
        })
    else:
        m["not_applicable"].append({"property_id": i, "reason": NOT_BUILT_REASON})
json.dump(m, open('/verif/MANIFEST.json','w'), indent=1)
print("checks:", len(m["checks"]), "not_applicable:", len(m["not_applicable"]))
