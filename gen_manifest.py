#!/usr/bin/env python3
"""Regenerates MANIFEST.json from the table below (single source of truth for the interface)."""
import json, subprocess, sys
props = [json.loads(l) for l in open('/verif/properties.jsonl')]
ids = [p['id'] for p in props]

# id -> (category, technique, level text, level note, design ref); only built checks are listed
CHECKS = {
 "C08": ("exploration",
   "property-based testing: bounded-exhaustive enumeration of short histories + proptest random histories against a notification-mirror / connection-state-machine model; differential run against AccumulatingRuntime",
   "All histories to depth 5 (quick) / 6 (thorough) over a 20-op reduced alphabet are enumerated completely; random histories of up to 150 calls and a lock-step differential against AccumulatingRuntime go far beyond that depth. Outside the enumerated sub-space the evidence is bounded by the reported counts.",
   "Trusts the harness identity/codec/runtime/handler; the connection state cross-check reads the verif-hooks snapshot.",
   "DESIGN.md §4 C08"),
 "C09": ("exploration",
   "property-based testing: proptest-generated single-instance histories with multi-generation identities against per-call membership-state invariants",
   "Random search with shrinking over histories with 5 generations per address (own address included); invariants evaluated after every call on iter_membership_state(), notifications and sends.",
   "Trusts the harness components; change_identity restricted to its documented use (own address).",
   "DESIGN.md §4 C09"),
 "C10": ("exploration",
   "property-based testing: proptest-generated self-update-biased histories against an incarnation ledger (hook snapshot + outgoing headers) and a told-incarnation bound",
   "Random search with shrinking; the ledger re-states the statement's rule (max(own,suspected)+1 for suspicions >= own) and compares it with the real incarnation after every call and with every outgoing header.",
   "Own incarnation at call boundaries is read through the verif-hooks snapshot; acceptance of datagrams is classified structurally.",
   "DESIGN.md §4 C10"),
 "C19": ("exploration",
   "property-based testing: proptest-generated single-instance API/datagram/timer histories against a destination-address invariant",
   "Random search with shrinking over single-instance histories (30k quick / 2M thorough) that contain the instance's own older and newer identities; every send_to destination is compared with the identity held at the time of the send. Evidence bounded by the reported counts, not a proof.",
   "Trusts the harness identity/codec/runtime (total, non-panicking); identity at send time is derived from the identity chain of the call.",
   "DESIGN.md §4 C19"),
}
NOT_BUILT_REASON = "check not built yet in this revision (planned: see DESIGN.md section 4); no claim is made"

hooks_commits = subprocess.run(['git','-C','/repo','log','--format=%H','--grep=verif-hooks'],capture_output=True,text=True).stdout.split()
m = {
 "version": 1,
 "setup_cmd": "./check --setup",
 "hooks": {
   "guard": "cargo feature verif-hooks (foca/Cargo.toml [features]; off by default)",
   "enable": "the harness depends on foca = { path = \"/repo\", features = [\"std\", \"bincode-codec\", \"postcard-codec\", \"verif-hooks\"] } and every ./check rebuilds it from /repo's working tree",
   "baseline_off_cmd": "cd /repo && cargo test --workspace --no-fail-fast --offline",
   "source_commits": hooks_commits,
   "add_only": True,
 },
 "engines": [
   {"name": "vcheck", "path": "harness/", "serves_properties": sorted(CHECKS.keys()),
    "kind_free_text": "Rust harness crate (lib + bin vcheck): proptest TestRunner shards, bounded enumerators, deterministic cluster simulator, independent wire parser, reference models; ./check <ID> quick|thorough|--replay"},
 ],
 "checks": [],
 "notes": "Exit codes: 0 held, 1 VIOLATION (line printed, replay file under replays/), 2 inconclusive (build/infra). Known and fixed findings: known_findings.json + findings/*.json (replayed on every run).",
 "not_applicable": [],
}
for i in ids:
    if i in CHECKS:
        cat, tech, text, note, ref = CHECKS[i]
        m["checks"].append({
          "property_id": i,
          "quick_cmd": f"./check {i} quick",
          "thorough_cmd": f"./check {i} thorough",
          "evidence_file": f"/verif/evidence/{i}.json",
          "replay_cmd_template": f"./check {i} --replay {{path}}",
          "engine": "vcheck",
          "level_claimed": {"category": cat, "text": text, "design_ref": ref},
          "level_note": note,
          "technique": tech,
        })
    else:
        m["not_applicable"].append({"property_id": i, "reason": NOT_BUILT_REASON})
json.dump(m, open('/verif/MANIFEST.json','w'), indent=1)
print("checks:", len(m["checks"]), "not_applicable:", len(m["not_applicable"]))
